package project

// BOUNDED stand-in (not a proof): write -> load -> equal, and write again -> identical bytes, for
// configurations whose project name, ignore patterns and requirement names range over all strings up
// to length VERIF_BOUND over an alphabet with characters that need quoting, and versioned paths.

import (
	"bytes"
	"encoding/json"
	"fmt"
	"os"
	"path/filepath"
	"reflect"
	"strconv"
	"testing"
)

func TestVerifBoundedConfig(t *testing.T) {
	bound := 3
	if s := os.Getenv("VERIF_BOUND"); s != "" {
		bound, _ = strconv.Atoi(s)
	}
	alphabet := []string{"a", "Z", "0", "_", "-", " ", ".", "\"", "'", "\\", "#", "=", "é", "\t"}
	var words []string
	var rec func(cur string, n int)
	rec = func(cur string, n int) {
		words = append(words, cur)
		if n == bound {
			return
		}
		for _, c := range alphabet {
			rec(cur+c, n+1)
		}
	}
	rec("", 0)
	paths := []string{"example.com/x", "example.com/x@v2", "github.com/a/b/sub@v3", "x"}
	dir := t.TempDir()
	total, nontrivial, failures := 0, 0, 0
	var samples []string
	for i, w := range words {
		c := &Config{Name: w, Version: "", Ignore: nil, Requirements: map[string]RequirementConfig{}}
		if i%2 == 1 {
			c.Ignore = []string{w, "*.tmp"}
		}
		c.Requirements[w] = RequirementConfig{Path: paths[i%len(paths)], Version: "v1.2.3"}
		if i%3 == 0 {
			c.Requirements["other"] = RequirementConfig{Path: "example.com/other", Version: "v0.1.0"}
		}
		total++
		if w != "" {
			nontrivial++
		}
		path := filepath.Join(dir, "dawn.toml")
		if err := WriteConfigFile(path, c); err != nil {
			failures++
			t.Errorf("write %q: %v", w, err)
			continue
		}
		first, _ := os.ReadFile(path)
		got, err := LoadConfigFile(path)
		if err != nil {
			failures++
			if failures <= 10 {
				t.Errorf("name %q: written file does not load: %v\n%s", w, err, first)
			}
			continue
		}
		want := *c
		if want.Ignore == nil {
			got.Ignore = nil
		}
		if !reflect.DeepEqual(got.Requirements, want.Requirements) || got.Name != want.Name || !reflect.DeepEqual(got.Ignore, want.Ignore) {
			failures++
			if failures <= 10 {
				t.Errorf("name %q: loaded %+v, wrote %+v", w, got, want)
			}
			continue
		}
		if err := WriteConfigFile(path, got); err != nil {
			failures++
			continue
		}
		second, _ := os.ReadFile(path)
		if !bytes.Equal(first, second) {
			failures++
			if failures <= 10 {
				t.Errorf("name %q: second write differs:\n%s\nvs\n%s", w, first, second)
			}
		}
		if len(samples) < 5 && total%601 == 5 {
			samples = append(samples, string(first))
		}
	}
	if f := os.Getenv("VERIF_BOUNDED_STATS"); f != "" {
		data, _ := json.Marshal(map[string]interface{}{"evaluations": total, "distinct_nontrivial": nontrivial, "failures": failures, "samples": samples,
			"rule": fmt.Sprintf("project/ignore/requirement names = all strings up to length %d over 14 characters (plain, quoting-relevant, non-ASCII); 4 path shapes; non-trivial = non-empty name", bound), "exhaustive": true})
		os.WriteFile(f, data, 0o644)
	}
	if failures > 0 {
		t.Fatalf("%d failures over %d configurations", failures, total)
	}
}

#!/bin/bash
# usage: tools/core.sh file.smt2 — prints assertions whose removal makes an unsat script not unsat
f="$1"
for ln in $(grep -n "^(assert" "$f" | cut -d: -f1); do
  sed "${ln}d" "$f" > /tmp/core_t.smt2
  r=$(z3-new -T:5 -smt2 /tmp/core_t.smt2 2>&1 | grep -v WARN | head -1)
  if [ "$r" != "unsat" ]; then echo "$ln [$r]: $(sed -n ${ln}p "$f" | cut -c1-400)"; fi
done

package main

// SSA instruction encoding.

import (
	"fmt"
	"go/constant"
	"go/token"
	"go/types"
	"strings"

	"golang.org/x/tools/go/ssa"
)

func constantString(c *ssa.Const) string { return constant.StringVal(c.Value) }

func deref(t types.Type) types.Type {
	if p, ok := t.Underlying().(*types.Pointer); ok {
		return p.Elem()
	}
	return t
}

// ---------- lvalues ----------

func (e *Enc) lvalOf(v ssa.Value) *lvalue {
	if l, ok := e.lv[v]; ok {
		return l
	}
	// a plain pointer value
	pt, ok := v.Type().Underlying().(*types.Pointer)
	if !ok {
		return nil
	}
	elem := pt.Elem()
	l := &lvalue{base: e.term(v), root: elem, baseVal: v}
	if at, ok := elem.Underlying().(*types.Array); ok {
		l.root = at.Elem()
		l.elems = true
	}
	return l
}

func (l *lvalue) extend(s sel) *lvalue {
	n := &lvalue{base: l.base, root: l.root, elems: l.elems, fresh: l.fresh, baseVal: l.baseVal}
	n.path = append(append([]sel{}, l.path...), s)
	return n
}

// typeAt returns the Go type designated by the lvalue.
func (e *Enc) lvalType(l *lvalue) types.Type {
	var t types.Type = l.root
	path := l.path
	if l.elems {
		if len(path) == 0 {
			return nil // whole backing array
		}
		path = path[1:]
	}
	for _, s := range path {
		switch u := t.Underlying().(type) {
		case *types.Struct:
			t = u.Field(s.field).Type()
		case *types.Array:
			t = u.Elem()
		default:
			e.fail("lvalType: bad path")
		}
	}
	return t
}

// readValuePath reads a sub-value along path from a value term of type t.
func (e *Enc) readValuePath(val string, t types.Type, path []sel) (string, types.Type) {
	for _, s := range path {
		switch u := t.Underlying().(type) {
		case *types.Struct:
			e.st.sortOf(t)
			val = fmt.Sprintf("(%s %s)", e.st.fieldAccIdx(t, u, s.field), val)
			t = u.Field(s.field).Type()
		case *types.Array:
			val = fmt.Sprintf("(select %s %s)", val, s.idx)
			t = u.Elem()
		default:
			e.fail("readValuePath: bad path on %s", t)
		}
	}
	return val, t
}

// updateValuePath returns val with the sub-value at path replaced by nv.
func (e *Enc) updateValuePath(val string, t types.Type, path []sel, nv string) string {
	if len(path) == 0 {
		return nv
	}
	s := path[0]
	switch u := t.Underlying().(type) {
	case *types.Struct:
		e.st.sortOf(t)
		var fs []string
		for i := 0; i < u.NumFields(); i++ {
			fv := fmt.Sprintf("(%s %s)", e.st.fieldAccIdx(t, u, i), val)
			if i == s.field {
				fv = e.updateValuePath(fv, u.Field(i).Type(), path[1:], nv)
			}
			fs = append(fs, fv)
		}
		return "(" + e.st.structCtor(t) + " " + strings.Join(fs, " ") + ")"
	case *types.Array:
		inner := fmt.Sprintf("(select %s %s)", val, s.idx)
		return fmt.Sprintf("(store %s %s %s)", val, s.idx, e.updateValuePath(inner, u.Elem(), path[1:], nv))
	}
	e.fail("updateValuePath: bad path")
	return ""
}

// load reads the value designated by l in state st.
func (e *Enc) load(l *lvalue, st *State) (string, types.Type) {
	if l.elems {
		k, ks := e.elemsKey(l.root)
		arr := fmt.Sprintf("(select %s %s)", e.get(st, k, ks), l.base)
		if len(l.path) == 0 {
			return arr, nil
		}
		v := fmt.Sprintf("(select %s %s)", arr, l.path[0].idx)
		return e.readValuePath(v, l.root, l.path[1:])
	}
	if su, ok := l.root.Underlying().(*types.Struct); ok {
		if len(l.path) == 0 {
			e.st.sortOf(l.root)
			if su.NumFields() == 0 {
				return e.st.structCtor(l.root), l.root
			}
			var fs []string
			for i := 0; i < su.NumFields(); i++ {
				k, ks := e.fieldKey(l.root, su.Field(i))
				fs = append(fs, fmt.Sprintf("(select %s %s)", e.get(st, k, ks), l.base))
			}
			return "(" + e.st.structCtor(l.root) + " " + strings.Join(fs, " ") + ")", l.root
		}
		f := su.Field(l.path[0].field)
		k, ks := e.fieldKey(l.root, f)
		v := fmt.Sprintf("(select %s %s)", e.get(st, k, ks), l.base)
		return e.readValuePath(v, f.Type(), l.path[1:])
	}
	// scalar cell
	k, ks := e.cellKey(l.root)
	v := fmt.Sprintf("(select %s %s)", e.get(st, k, ks), l.base)
	return e.readValuePath(v, l.root, l.path)
}

// store writes nv to the location designated by l.
func (e *Enc) store(l *lvalue, st *State, nv string) {
	if l.elems {
		k, ks := e.elemsKey(l.root)
		e.recordWrite(k, l)
		all := e.get(st, k, ks)
		arr := fmt.Sprintf("(select %s %s)", all, l.base)
		if len(l.path) == 0 {
			e.set(st, k, ks, fmt.Sprintf("(store %s %s %s)", all, l.base, nv))
			return
		}
		old := fmt.Sprintf("(select %s %s)", arr, l.path[0].idx)
		upd := e.updateValuePath(old, l.root, l.path[1:], nv)
		e.set(st, k, ks, fmt.Sprintf("(store %s %s (store %s %s %s))", all, l.base, arr, l.path[0].idx, upd))
		return
	}
	if su, ok := l.root.Underlying().(*types.Struct); ok {
		if len(l.path) == 0 {
			e.st.sortOf(l.root)
			for i := 0; i < su.NumFields(); i++ {
				k, ks := e.fieldKey(l.root, su.Field(i))
				e.recordWrite(k, l)
				fv := fmt.Sprintf("(%s %s)", e.st.fieldAccIdx(l.root, su, i), nv)
				e.set(st, k, ks, fmt.Sprintf("(store %s %s %s)", e.get(st, k, ks), l.base, fv))
			}
			return
		}
		f := su.Field(l.path[0].field)
		k, ks := e.fieldKey(l.root, f)
		e.recordWrite(k, l)
		all := e.get(st, k, ks)
		old := fmt.Sprintf("(select %s %s)", all, l.base)
		upd := e.updateValuePath(old, f.Type(), l.path[1:], nv)
		e.set(st, k, ks, fmt.Sprintf("(store %s %s %s)", all, l.base, upd))
		return
	}
	k, ks := e.cellKey(l.root)
	e.recordWrite(k, l)
	all := e.get(st, k, ks)
	old := fmt.Sprintf("(select %s %s)", all, l.base)
	upd := e.updateValuePath(old, l.root, l.path, nv)
	e.set(st, k, ks, fmt.Sprintf("(store %s %s %s)", all, l.base, upd))
}

// ---------- instructions ----------

func (e *Enc) setVal(v ssa.Value, term string) {
	// name every value to keep terms small
	sortS := e.st.sortOf(v.Type())
	n := q(fmt.Sprintf("v:%s", v.Name()))
	if e.declSeen[n] {
		n = e.fresh("v:" + v.Name())
	}
	e.declare(n, sortS)
	e.assume(fmt.Sprintf("(= %s %s)", n, term))
	e.val[v] = n
}

func (e *Enc) havocVal(v ssa.Value, st *State, why string) string {
	n := e.freshConst("hv."+v.Name(), e.st.sortOf(v.Type()))
	e.val[v] = n
	e.assumeWFg(n, v.Type(), st, "true")
	if why != "" {
		e.note(why)
	}
	return n
}

func (e *Enc) safe(kind string, cond string, p token.Pos) {
	g := e.guardAt()
	n := e.ordinal(kind)
	e.oblige(kind, fmt.Sprintf("@%d", n), "", g, cond, p, "")
	e.assume(fmt.Sprintf("(=> %s %s)", g, cond))
}

func (e *Enc) idxInRange(i, n string) string {
	return fmt.Sprintf("(and (idx.le idx.zero %s) (idx.lt %s %s))", i, i, n)
}

func (e *Enc) toIdx(v ssa.Value) string {
	t := e.term(v)
	if e.mode == ModeBV {
		return e.st.convInt(t, v.Type(), types.Typ[types.Int])
	}
	return t
}

func (e *Enc) encodeInstr(b *ssa.BasicBlock, ins ssa.Instruction, st *State) {
	switch ins := ins.(type) {
	case *ssa.DebugRef:
		return
	case *ssa.Alloc:
		e.encAlloc(ins, st)
	case *ssa.FieldAddr:
		base := e.lvalOf(ins.X)
		if base == nil {
			e.fail("FieldAddr on non-pointer")
		}
		if len(base.path) == 0 && !base.fresh {
			if _, isAlloc := ins.X.(*ssa.Alloc); !isAlloc {
				e.safe("safe:nil", fmt.Sprintf("(not (= %s null))", base.base), ins.Pos())
			}
		}
		e.lv[ins] = base.extend(sel{field: ins.Field})
		e.val[ins] = e.freshConst("iptr."+ins.Name(), "Ref")
	case *ssa.IndexAddr:
		idx := e.toIdx(ins.Index)
		switch xt := ins.X.Type().Underlying().(type) {
		case *types.Slice:
			s := e.term(ins.X)
			e.safe("safe:idx", e.idxInRange(idx, fmt.Sprintf("(sl.len %s)", s)), ins.Pos())
			var bv ssa.Value
			if ms, ok := ins.X.(*ssa.MakeSlice); ok {
				bv = ms
			}
			e.lv[ins] = &lvalue{base: fmt.Sprintf("(sl.arr %s)", s), root: xt.Elem(), elems: true, baseVal: bv,
				path: []sel{{isIdx: true, idx: fmt.Sprintf("(idx.add (sl.off %s) %s)", s, idx)}}}
			// make the accessor term available to quantified facts about this slice
			k, ks := e.elemsKey(xt.Elem())
			arr := fmt.Sprintf("(select %s (sl.arr %s))", e.get(st, k, ks), s)
			e.assume(fmt.Sprintf("(= %s (select %s (idx.add (sl.off %s) %s)))", e.slGet(xt.Elem(), arr, fmt.Sprintf("(sl.off %s)", s), idx), arr, s, idx))
		case *types.Pointer:
			at := xt.Elem().Underlying().(*types.Array)
			base := e.lvalOf(ins.X)
			e.safe("safe:idx", e.idxInRange(idx, e.st.idxLit(at.Len())), ins.Pos())
			e.lv[ins] = base.extend(sel{isIdx: true, idx: idx})
		default:
			e.fail("IndexAddr on %s", ins.X.Type())
		}
		e.val[ins] = e.freshConst("iptr."+ins.Name(), "Ref")
	case *ssa.Index:
		idx := e.toIdx(ins.Index)
		x := e.term(ins.X)
		switch xt := ins.X.Type().Underlying().(type) {
		case *types.Basic: // string
			e.safe("safe:idx", e.idxInRange(idx, fmt.Sprintf("(gs.len %s)", x)), ins.Pos())
			e.setVal(ins, fmt.Sprintf("(gs.at %s %s)", x, idx))
		case *types.Array:
			e.safe("safe:idx", e.idxInRange(idx, e.st.idxLit(xt.Len())), ins.Pos())
			e.setVal(ins, fmt.Sprintf("(select %s %s)", x, idx))
		default:
			e.havocVal(ins, st, "Index on "+ins.X.Type().String())
		}
	case *ssa.Field:
		x := e.term(ins.X)
		t := ins.X.Type()
		su := t.Underlying().(*types.Struct)
		e.st.sortOf(t)
		e.setVal(ins, fmt.Sprintf("(%s %s)", e.st.fieldAccIdx(t, su, ins.Field), x))
	case *ssa.UnOp:
		e.encUnOp(ins, st)
	case *ssa.Store:
		l := e.lvalOf(ins.Addr)
		if l == nil {
			e.fail("Store to non-pointer")
		}
		e.checkProtected(l, st, true, ins.Pos())
		if len(l.path) == 0 && !l.fresh && !l.elems {
			if _, isAlloc := ins.Addr.(*ssa.Alloc); !isAlloc {
				e.safe("safe:nil", fmt.Sprintf("(not (= %s null))", l.base), ins.Pos())
			}
		}
		e.store(l, st, e.term(ins.Val))
		// a closure kept in a local variable (captured by another closure): calls through the variable resolve to it
		if mc, ok := ins.Val.(*ssa.MakeClosure); ok {
			if al, ok := ins.Addr.(*ssa.Alloc); ok {
				if prev, had := e.cellClosure[al]; had && prev != mc {
					e.cellClosure[al] = nil
				} else if !had {
					e.cellClosure[al] = mc
				}
			}
		}
	case *ssa.BinOp:
		e.encBinOp(ins, st)
	case *ssa.Phi:
		// handled at block entry
	case *ssa.Call:
		e.encCall(ins, ins.Common(), st, e.guardAt(), false)
	case *ssa.Defer:
		e.defers = append(e.defers, deferRec{ins, b})
	case *ssa.RunDefers:
		e.encRunDefers(st)
	case *ssa.Go:
		e.encGo(ins, st)
	case *ssa.Convert:
		e.encConvert(ins, st)
	case *ssa.ChangeType:
		if e.st.sortOf(ins.X.Type()) == e.st.sortOf(ins.Type()) {
			e.val[ins] = e.term(ins.X)
			if l, ok := e.lv[ins.X]; ok {
				e.lv[ins] = l
			}
		} else {
			e.havocVal(ins, st, "ChangeType between sorts")
		}
	case *ssa.ChangeInterface:
		e.val[ins] = e.term(ins.X)
	case *ssa.MakeInterface:
		e.setVal(ins, e.box(e.term(ins.X), ins.X.Type()))
	case *ssa.TypeAssert:
		e.encTypeAssert(ins, st)
	case *ssa.Extract:
		if ts, ok := e.tup[ins.Tuple]; ok && ins.Index < len(ts) {
			e.val[ins] = ts[ins.Index]
		} else {
			e.havocVal(ins, st, "")
		}
	case *ssa.MakeSlice:
		r := e.allocRef(st, "mkslice")
		n := e.toIdx(ins.Len)
		c := e.toIdx(ins.Cap)
		e.safe("safe:makeslice", fmt.Sprintf("(and (idx.le idx.zero %s) (idx.le %s %s))", n, n, c), ins.Pos())
		elem := ins.Type().Underlying().(*types.Slice).Elem()
		k, ks := e.elemsKey(elem)
		zeroArr := fmt.Sprintf("((as const (Array %s %s)) %s)", e.st.idx(), e.st.sortOf(elem), e.st.zero(elem))
		e.recordFreshWrite(k)
		e.set(st, k, ks, fmt.Sprintf("(store %s %s %s)", e.get(st, k, ks), r, zeroArr))
		e.setVal(ins, fmt.Sprintf("(mkslice %s idx.zero %s %s)", r, n, c))
	case *ssa.MakeMap:
		r := e.allocRef(st, "mkmap")
		mt := ins.Type().Underlying().(*types.Map)
		dk, ds, _, _ := e.mapKeys(mt)
		empty := fmt.Sprintf("((as const (Array %s Bool)) false)", e.st.sortOf(mt.Key()))
		e.recordFreshWrite(dk)
		e.set(st, dk, ds, fmt.Sprintf("(store %s %s %s)", e.get(st, dk, ds), r, empty))
		e.val[ins] = r
	case *ssa.Lookup:
		e.encLookup(ins, st)
	case *ssa.MapUpdate:
		mt := ins.Map.Type().Underlying().(*types.Map)
		m := e.term(ins.Map)
		dk, ds, vk, vs := e.mapKeys(mt)
		e.safe("safe:nilmap", fmt.Sprintf("(not (= %s null))", m), ins.Pos())
		kt, vt := e.term(ins.Key), e.term(ins.Value)
		d := e.get(st, dk, ds)
		v := e.get(st, vk, vs)
		ml := &lvalue{base: m, baseVal: ins.Map}
		e.recordWrite(dk, ml)
		e.recordWrite(vk, ml)
		e.set(st, dk, ds, fmt.Sprintf("(store %s %s (store (select %s %s) %s true))", d, m, d, m, kt))
		e.set(st, vk, vs, fmt.Sprintf("(store %s %s (store (select %s %s) %s %s))", v, m, v, m, kt, vt))
	case *ssa.Range:
		e.encRange(ins, st)
	case *ssa.Next:
		e.encNext(ins, st)
	case *ssa.Slice:
		e.encSlice(ins, st)
	case *ssa.MakeClosure:
		e.closures[ins] = ins
		e.val[ins] = e.allocRef(st, "closure")
	case *ssa.If, *ssa.Jump:
		// control handled via edgeCond
	case *ssa.Return:
		e.encReturn(ins, st)
	case *ssa.Panic:
		e.encPanic(ins, st)
	case *ssa.Select, *ssa.Send, *ssa.MakeChan:
		if v, ok := ins.(ssa.Value); ok {
			e.havocVal(v, st, "")
		}
		e.havocHeap(st, fmt.Sprintf("unsupported %T", ins))
	case *ssa.SliceToArrayPointer, *ssa.MultiConvert:
		e.havocVal(ins.(ssa.Value), st, fmt.Sprintf("unsupported %T", ins))
	default:
		if v, ok := ins.(ssa.Value); ok {
			e.havocVal(v, st, fmt.Sprintf("unsupported %T", ins))
		} else {
			e.note(fmt.Sprintf("ignored instruction %T", ins))
		}
	}
}

func (e *Enc) allocRef(st *State, hint string) string {
	r := e.freshConst("new."+hint, "Ref")
	a := e.allocArr(st)
	e.assume(fmt.Sprintf("(not (select %s %s))", a, r))
	e.set(st, allocKey, "(Array Ref Bool)", fmt.Sprintf("(store %s %s true)", a, r))
	return r
}

func (e *Enc) encAlloc(ins *ssa.Alloc, st *State) {
	r := e.allocRef(st, ins.Name()+"."+ins.Comment)
	e.val[ins] = r
	elem := deref(ins.Type())
	l := &lvalue{base: r, root: elem, fresh: true, baseVal: ins}
	if at, ok := elem.Underlying().(*types.Array); ok {
		l.root = at.Elem()
		l.elems = true
		k, ks := e.elemsKey(at.Elem())
		zeroArr := fmt.Sprintf("((as const (Array %s %s)) %s)", e.st.idx(), e.st.sortOf(at.Elem()), e.st.zero(at.Elem()))
		e.recordFreshWrite(k)
		e.set(st, k, ks, fmt.Sprintf("(store %s %s %s)", e.get(st, k, ks), r, zeroArr))
	} else {
		e.store(l, st, e.st.zero(elem))
		// a fresh object's mutexes are not held
		if su, ok := elem.Underlying().(*types.Struct); ok {
			for i := 0; i < su.NumFields(); i++ {
				f := su.Field(i)
				if isSyncType(f.Type(), "Mutex") || isSyncType(f.Type(), "RWMutex") {
					m := mutexRef{structT: elem, field: f.Name(), obj: r, ok: true}
					for _, rd := range []bool{false, true} {
						k, ks := e.lockKey(m, rd)
						e.set(st, k, ks, fmt.Sprintf("(store %s %s false)", e.get(st, k, ks), r))
					}
				}
			}
		}
	}
	e.lv[ins] = l
	if sc := e.structContract(elem); sc != nil && len(sc.ZeroInit) > 0 {
		ctx := e.ctxAt(st, e.curBlock, e.curIdx)
		ctx.bind = map[string]TV{"this": {T: r, Typ: ins.Type(), Sort: "Ref"}}
		ctx.noLocals = true
		ctx.useParams = false
		for _, c := range sc.ZeroInit {
			e.assume(ctx.evalBool(c))
		}
	}
}

func (e *Enc) encUnOp(ins *ssa.UnOp, st *State) {
	switch ins.Op {
	case token.MUL:
		l := e.lvalOf(ins.X)
		if l == nil {
			e.fail("load from non-pointer")
		}
		if len(l.path) == 0 && !l.fresh && !l.elems {
			switch ins.X.(type) {
			case *ssa.Alloc, *ssa.Global:
			default:
				e.safe("safe:nil", fmt.Sprintf("(not (= %s null))", l.base), ins.Pos())
			}
		}
		e.checkProtected(l, st, false, ins.Pos())
		v, _ := e.load(l, st)
		e.setVal(ins, v)
		if al, ok := ins.X.(*ssa.Alloc); ok {
			if mc := e.cellClosure[al]; mc != nil {
				e.closures[ins] = mc
			}
		}
		e.assumeWFg(e.val[ins], ins.Type(), st, "true")
		// package-level error values (var ErrX = errors.New(...), fs.SkipDir, io.EOF ...) are created
		// non-nil at initialisation and are not reassigned (Go convention, assumed): a load of a
		// package-level variable of type error whose name starts with Err/err/Skip/EOF is non-nil
		if g, isG := ins.X.(*ssa.Global); isG && e.st.sortOf(ins.Type()) == "Iface" {
			nm := g.Name()
			if strings.HasPrefix(nm, "Err") || strings.HasPrefix(nm, "err") || strings.HasPrefix(nm, "Skip") || nm == "EOF" {
				e.assume(fmt.Sprintf("(not (= %s iface.nil))", e.val[ins]))
				e.note("package-level error value " + g.String() + " taken to be non-nil")
			}
		}
		// remember where a loaded pointer came from (needed for sync.Cond receivers)
	case token.NOT:
		e.setVal(ins, fmt.Sprintf("(not %s)", e.term(ins.X)))
	case token.SUB:
		x := e.term(ins.X)
		if isInt(ins.X.Type()) {
			if e.mode == ModeBV {
				e.setVal(ins, fmt.Sprintf("(bvneg %s)", x))
			} else {
				e.setVal(ins, fmt.Sprintf("(- %s)", x))
			}
		} else {
			e.havocVal(ins, st, "float negation")
		}
	case token.XOR:
		if e.mode == ModeBV {
			e.setVal(ins, fmt.Sprintf("(bvnot %s)", e.term(ins.X)))
		} else {
			e.havocVal(ins, st, "bitwise not in int mode")
		}
	default:
		e.havocVal(ins, st, "unsupported unary op "+ins.Op.String())
		if ins.Op == token.ARROW {
			e.havocHeap(st, "channel receive")
		}
	}
}

func (e *Enc) strExt(a, b string) {
	// extensionality instance for a pair of strings
	k := e.freshConst("strdiff", e.st.idx())
	e.assume(fmt.Sprintf("(=> (not (= %s %s)) (or (not (= (gs.len %s) (gs.len %s))) (and (idx.le idx.zero %s) (idx.lt %s (gs.len %s)) (not (= (gs.at %s %s) (gs.at %s %s))))))", a, b, a, b, k, k, a, a, k, b, k))
}

func (e *Enc) encBinOp(ins *ssa.BinOp, st *State) {
	x, y := e.term(ins.X), e.term(ins.Y)
	xt := ins.X.Type()
	switch ins.Op {
	case token.EQL, token.NEQ:
		if e.st.sortOf(xt) == "Str" {
			e.strExt(x, y)
		}
		if e.st.sortOf(xt) == "Float" {
			e.havocVal(ins, st, "float comparison")
			return
		}
		if e.st.sortOf(xt) != e.st.sortOf(ins.Y.Type()) {
			e.havocVal(ins, st, "comparison between sorts")
			return
		}
		t := fmt.Sprintf("(= %s %s)", x, y)
		if ins.Op == token.NEQ {
			t = "(not " + t + ")"
		}
		e.setVal(ins, t)
		return
	case token.LSS, token.LEQ, token.GTR, token.GEQ:
		if isInt(xt) {
			e.setVal(ins, e.st.cmpInt(ins.Op, x, y, xt))
			return
		}
		e.havocVal(ins, st, "ordered comparison on "+xt.String())
		return
	case token.LAND, token.LOR:
		e.havocVal(ins, st, "")
		return
	}
	if e.st.sortOf(xt) == "Str" && ins.Op == token.ADD {
		e.setVal(ins, fmt.Sprintf("(gs.cat %s %s)", x, y))
		return
	}
	if e.st.sortOf(xt) == "Bool" {
		switch ins.Op {
		case token.AND:
			e.setVal(ins, fmt.Sprintf("(and %s %s)", x, y))
			return
		case token.OR:
			e.setVal(ins, fmt.Sprintf("(or %s %s)", x, y))
			return
		}
	}
	if !isInt(xt) {
		e.havocVal(ins, st, "arithmetic on "+xt.String())
		return
	}
	if ins.Op == token.QUO || ins.Op == token.REM {
		zero := e.st.intLit(bigZero, ins.Y.Type())
		e.safe("safe:div", fmt.Sprintf("(not (= %s %s))", y, zero), ins.Pos())
	}
	t, ok := e.st.binInt(ins.Op, x, y, ins.Type(), ins.Y.Type())
	if !ok {
		// int mode: a few bit operations with constant right operands
		if c, isC := ins.Y.(*ssa.Const); isC && e.mode == ModeInt && c.Value != nil {
			if n, exact := constant.Int64Val(c.Value); exact && n >= 0 && n < 62 {
				switch ins.Op {
				case token.SHL:
					e.setValWrapped(ins, fmt.Sprintf("(* %s %d)", x, int64(1)<<uint(n)), st)
					return
				case token.SHR:
					e.setVal(ins, fmt.Sprintf("(div %s %d)", x, int64(1)<<uint(n)))
					return
				}
			}
		}
		e.havocVal(ins, st, "bit operation in int mode: "+ins.Op.String())
		return
	}
	if e.mode == ModeInt {
		e.setValWrapped(ins, t, st)
		return
	}
	e.setVal(ins, t)
}

// setValWrapped names an int-mode arithmetic result, emitting an overflow side-obligation
// and then treating the result as mathematical.
func (e *Enc) setValWrapped(ins ssa.Value, t string, st *State) {
	e.setVal(ins, t)
	if r := e.st.rangeOf(e.val[ins], ins.Type()); r != "" {
		g := e.guardAt()
		n := e.ordinal("safe:ovf")
		e.oblige("safe:ovf", fmt.Sprintf("@%d", n), "", g, r, ins.Pos(), "")
		e.assume(fmt.Sprintf("(=> %s %s)", g, r))
	}
}

func (e *Enc) encConvert(ins *ssa.Convert, st *State) {
	ft, tt := ins.X.Type(), ins.Type()
	x := e.term(ins.X)
	fs, ts := e.st.sortOf(ft), e.st.sortOf(tt)
	switch {
	case isInt(ft) && isInt(tt):
		e.setVal(ins, e.st.convInt(x, ft, tt))
	case fs == "Str" && ts == "Slice":
		// []byte(s): fresh backing array holding the bytes of s
		r := e.allocRef(st, "bytes")
		elem := tt.Underlying().(*types.Slice).Elem()
		k, ks := e.elemsKey(elem)
		arr := e.freshConst("bytesof", fmt.Sprintf("(Array %s %s)", e.st.idx(), e.st.sortOf(elem)))
		if e.st.sortOf(elem) == e.st.byteSort() {
			e.assume(fmt.Sprintf("(forall ((i %s)) (! (=> (and (idx.le idx.zero i) (idx.lt i (gs.len %s))) (= (select %s i) (gs.at %s i))) :pattern ((select %s i))))", e.st.idx(), x, arr, x, arr))
			e.assume(fmt.Sprintf("(= (gs.of %s %s idx.zero (gs.len %s)) %s)", r, arr, x, x))
		}
		e.recordFreshWrite(k)
		e.set(st, k, ks, fmt.Sprintf("(store %s %s %s)", e.get(st, k, ks), r, arr))
		e.setVal(ins, fmt.Sprintf("(mkslice %s idx.zero (gs.len %s) (gs.len %s))", r, x, x))
	case fs == "Slice" && ts == "Str":
		elem := ft.Underlying().(*types.Slice).Elem()
		if e.st.sortOf(elem) == e.st.byteSort() {
			k, ks := e.elemsKey(elem)
			e.setVal(ins, fmt.Sprintf("(gs.of (sl.arr %s) (select %s (sl.arr %s)) (sl.off %s) (sl.len %s))", x, e.get(st, k, ks), x, x, x))
		} else {
			e.havocVal(ins, st, "string from rune slice")
		}
	case fs == ts && fs != "Int" && !strings.HasPrefix(fs, "(_ BitVec"):
		e.val[ins] = x
	default:
		e.havocVal(ins, st, fmt.Sprintf("conversion %s -> %s", ft, tt))
	}
}

// box builds an interface value from a concrete value.
func (e *Enc) box(x string, t types.Type) string {
	if _, ok := t.Underlying().(*types.Interface); ok {
		return x
	}
	id := e.st.typeID(t)
	switch e.st.sortOf(t) {
	case "Ref":
		return fmt.Sprintf("(iface.ref %d %s)", id, x)
	case "Str":
		return fmt.Sprintf("(iface.str %d %s)", id, x)
	case "Bool":
		return fmt.Sprintf("(iface.bool %d %s)", id, x)
	case "Slice":
		return fmt.Sprintf("(iface.slice %d %s)", id, x)
	}
	if isInt(t) {
		return fmt.Sprintf("(iface.int %d %s)", id, e.st.convInt(x, t, types.Typ[types.Int]))
	}
	// other payloads (structs, floats, arrays): injective uninterpreted boxing per sort
	s := e.st.sortOf(t)
	fnm := q("box:" + s)
	e.declareRaw(fnm, fmt.Sprintf("(declare-fun %s (%s) Int)", fnm, s))
	un := q("unbox:" + s)
	e.declareRaw(un, fmt.Sprintf("(declare-fun %s (Int) %s)", un, s))
	e.assume(fmt.Sprintf("(= (%s (%s %s)) %s)", un, fnm, x, x))
	return fmt.Sprintf("(iface.val %d (%s %s))", id, fnm, x)
}

// unbox extracts the payload of type t from interface value x, and the test that x holds a t.
func (e *Enc) unbox(x string, t types.Type) (payload, test string) {
	id := e.st.typeID(t)
	switch e.st.sortOf(t) {
	case "Ref":
		return fmt.Sprintf("(ifr.v %s)", x), fmt.Sprintf("(and ((_ is iface.ref) %s) (= (ifr.t %s) %d))", x, x, id)
	case "Str":
		return fmt.Sprintf("(ifs.v %s)", x), fmt.Sprintf("(and ((_ is iface.str) %s) (= (ifs.t %s) %d))", x, x, id)
	case "Bool":
		return fmt.Sprintf("(ifb.v %s)", x), fmt.Sprintf("(and ((_ is iface.bool) %s) (= (ifb.t %s) %d))", x, x, id)
	case "Slice":
		return fmt.Sprintf("(ifl.v %s)", x), fmt.Sprintf("(and ((_ is iface.slice) %s) (= (ifl.t %s) %d))", x, x, id)
	}
	if isInt(t) {
		return e.st.convInt(fmt.Sprintf("(ifi.v %s)", x), types.Typ[types.Int], t), fmt.Sprintf("(and ((_ is iface.int) %s) (= (ifi.t %s) %d))", x, x, id)
	}
	s := e.st.sortOf(t)
	fnm := q("box:" + s)
	e.declareRaw(fnm, fmt.Sprintf("(declare-fun %s (%s) Int)", fnm, s))
	un := q("unbox:" + s)
	e.declareRaw(un, fmt.Sprintf("(declare-fun %s (Int) %s)", un, s))
	return fmt.Sprintf("(%s (ifv.v %s))", un, x), fmt.Sprintf("(and ((_ is iface.val) %s) (= (ifv.t %s) %d))", x, x, id)
}

func (e *Enc) implementsFacts(iface types.Type) int {
	// typeID for the interface; facts are added lazily for all known concrete type ids at script time.
	return e.st.typeID(iface)
}

func (e *Enc) encTypeAssert(ins *ssa.TypeAssert, st *State) {
	x := e.term(ins.X)
	at := ins.AssertedType
	var val, ok string
	if _, isI := at.Underlying().(*types.Interface); isI {
		iid := e.implementsFacts(at)
		val = x
		if types.Identical(at.Underlying(), ins.X.Type().Underlying()) || types.AssignableTo(ins.X.Type(), at) {
			ok = fmt.Sprintf("(not (= %s iface.nil))", x)
		} else {
			ok = fmt.Sprintf("(and (not (= %s iface.nil)) (implements (iface.typ %s) %d))", x, x, iid)
		}
	} else {
		val, ok = e.unbox(x, at)
	}
	if strings.Contains(val, "unbox:") {
		// a value boxed as iface.val round-trips through its payload accessor
		s := e.st.sortOf(at)
		e.assume(fmt.Sprintf("(=> %s (= (%s %s) (ifv.v %s)))", ok, q("box:"+s), val, x))
	}
	if ins.CommaOk {
		okc := e.freshConst("ok."+ins.Name(), "Bool")
		e.assume(fmt.Sprintf("(= %s %s)", okc, ok))
		vc := e.freshConst("ta."+ins.Name(), e.st.sortOf(at))
		e.assume(fmt.Sprintf("(= %s (ite %s %s %s))", vc, okc, val, e.st.zero(at)))
		e.tup[ins] = []string{vc, okc}
		return
	}
	g := e.guardAt()
	n := e.ordinal("safe:assert")
	e.oblige("safe:assert", fmt.Sprintf("@%d", n), "", g, ok, ins.Pos(), "")
	e.assume(fmt.Sprintf("(=> %s %s)", g, ok))
	e.setVal(ins, val)
}

func (e *Enc) encLookup(ins *ssa.Lookup, st *State) {
	x := e.term(ins.X)
	switch xt := ins.X.Type().Underlying().(type) {
	case *types.Map:
		dk, ds, vk, vs := e.mapKeys(xt)
		k := e.term(ins.Index)
		has := fmt.Sprintf("(and (not (= %s null)) (select (select %s %s) %s))", x, e.get(st, dk, ds), x, k)
		val := fmt.Sprintf("(ite %s (select (select %s %s) %s) %s)", has, e.get(st, vk, vs), x, k, e.st.zero(xt.Elem()))
		// reading a protected map field's contents is checked at the load of the map pointer
		if ins.CommaOk {
			okc := e.freshConst("ok."+ins.Name(), "Bool")
			e.assume(fmt.Sprintf("(= %s %s)", okc, has))
			vc := e.freshConst("mv."+ins.Name(), e.st.sortOf(xt.Elem()))
			e.assume(fmt.Sprintf("(= %s %s)", vc, val))
			e.assumeWFg(vc, xt.Elem(), st, "true")
			e.tup[ins] = []string{vc, okc}
		} else {
			e.setVal(ins, val)
			e.assumeWFg(e.val[ins], xt.Elem(), st, "true")
		}
	default: // string index
		idx := e.toIdx(ins.Index)
		e.safe("safe:idx", e.idxInRange(idx, fmt.Sprintf("(gs.len %s)", x)), ins.Pos())
		e.setVal(ins, fmt.Sprintf("(gs.at %s %s)", x, idx))
	}
}

func (e *Enc) encRange(ins *ssa.Range, st *State) {
	// iterator state: set of keys already produced
	if mt, ok := ins.X.Type().Underlying().(*types.Map); ok {
		key := "IT:" + ins.Name()
		ks := fmt.Sprintf("(Array %s Bool)", e.st.sortOf(mt.Key()))
		e.set(st, key, ks, fmt.Sprintf("((as const %s) false)", ks))
	} else {
		key := "ITS:" + ins.Name()
		e.set(st, key, e.st.idx(), "idx.zero")
	}
	e.val[ins] = "null"
}

func (e *Enc) encNext(ins *ssa.Next, st *State) {
	rng, _ := ins.Iter.(*ssa.Range)
	if rng == nil {
		e.havocVal(ins, st, "Next on unknown iterator")
		return
	}
	okc := e.freshConst("ok."+ins.Name(), "Bool")
	if mt, ok := rng.X.Type().Underlying().(*types.Map); ok {
		m := e.term(rng.X)
		key := "IT:" + rng.Name()
		ks := fmt.Sprintf("(Array %s Bool)", e.st.sortOf(mt.Key()))
		seen := e.get(st, key, ks)
		dk, ds, vk, vs := e.mapKeys(mt)
		kc := e.freshConst("k."+ins.Name(), e.st.sortOf(mt.Key()))
		vc := e.freshConst("v."+ins.Name(), e.st.sortOf(mt.Elem()))
		dom := fmt.Sprintf("(select %s %s)", e.get(st, dk, ds), m)
		e.assume(fmt.Sprintf("(=> %s (and (not (= %s null)) (select %s %s) (not (select %s %s)) (= %s (select (select %s %s) %s))))", okc, m, dom, kc, seen, kc, vc, e.get(st, vk, vs), m, kc))
		kq := e.st.sortOf(mt.Key())
		e.assume(fmt.Sprintf("(=> (and (not %s) (not (= %s null))) (forall ((k %s)) (! (=> (select %s k) (select %s k)) :pattern ((select %s k)))))", okc, m, kq, dom, seen, seen))
		e.assumeWFg(vc, mt.Elem(), st, "true")
		e.assumeWFg(kc, mt.Key(), st, "true")
		e.set(st, key, ks, fmt.Sprintf("(ite %s (store %s %s true) %s)", okc, seen, kc, seen))
		e.tup[ins] = []string{okc, kc, vc}
		return
	}
	// string iteration: index/rune pairs; abstracted
	ic := e.freshConst("i."+ins.Name(), e.st.idx())
	rc := e.freshConst("r."+ins.Name(), e.st.sortOf(types.Typ[types.Rune]))
	s := e.term(rng.X)
	e.assume(fmt.Sprintf("(=> %s %s)", okc, e.idxInRange(ic, fmt.Sprintf("(gs.len %s)", s))))
	e.assumeWFg(rc, types.Typ[types.Rune], st, "true")
	e.note("string range iteration abstracted (positions and runes unconstrained)")
	e.tup[ins] = []string{okc, ic, rc}
}

func (e *Enc) encSlice(ins *ssa.Slice, st *State) {
	x := e.term(ins.X)
	zero := "idx.zero"
	lo := zero
	if ins.Low != nil {
		lo = e.toIdx(ins.Low)
	}
	switch xt := ins.X.Type().Underlying().(type) {
	case *types.Basic: // string
		hi := fmt.Sprintf("(gs.len %s)", x)
		if ins.High != nil {
			hi = e.toIdx(ins.High)
		}
		e.safe("safe:slice", fmt.Sprintf("(and (idx.le idx.zero %s) (idx.le %s %s) (idx.le %s (gs.len %s)))", lo, lo, hi, hi, x), ins.Pos())
		e.setVal(ins, fmt.Sprintf("(gs.sub %s %s %s)", x, lo, hi))
	case *types.Slice:
		hi := fmt.Sprintf("(sl.len %s)", x)
		if ins.High != nil {
			hi = e.toIdx(ins.High)
		}
		e.safe("safe:slice", fmt.Sprintf("(and (idx.le idx.zero %s) (idx.le %s %s) (idx.le %s (sl.cap %s)))", lo, lo, hi, hi, x), ins.Pos())
		if lo == zero {
			e.setVal(ins, fmt.Sprintf("(mkslice (sl.arr %s) (sl.off %s) %s (sl.cap %s))", x, x, hi, x))
		} else {
			e.setVal(ins, fmt.Sprintf("(mkslice (sl.arr %s) (idx.add (sl.off %s) %s) (idx.sub %s %s) (idx.sub (sl.cap %s) %s))", x, x, lo, hi, lo, x, lo))
		}
	case *types.Pointer:
		at := xt.Elem().Underlying().(*types.Array)
		n := e.st.idxLit(at.Len())
		hi := n
		if ins.High != nil {
			hi = e.toIdx(ins.High)
		}
		l := e.lvalOf(ins.X)
		e.safe("safe:slice", fmt.Sprintf("(and (idx.le idx.zero %s) (idx.le %s %s) (idx.le %s %s))", lo, lo, hi, hi, n), ins.Pos())
		if l == nil || !l.elems || len(l.path) != 0 {
			e.havocVal(ins, st, "slice of nested array")
			return
		}
		e.setVal(ins, fmt.Sprintf("(mkslice %s %s (idx.sub %s %s) (idx.sub %s %s))", l.base, lo, hi, lo, n, lo))
	default:
		e.havocVal(ins, st, "Slice on "+ins.X.Type().String())
	}
}

func (e *Enc) encReturn(ins *ssa.Return, st *State) {
	g := e.guardAt()
	e.retCount++
	o := e.oblige("cover", fmt.Sprintf("return@%d", e.retCount-1), "", "true", g, ins.Pos(), "")
	o.Cover = true
	if e.fc == nil {
		return
	}
	ctx := e.ctxReturn(st, ins)
	for i, c := range e.fc.Ensures {
		goal, ok := e.tryEvalBool(ctx, c)
		if !ok {
			continue // mentions a local that is not in scope at this return: the clause does not apply here
		}
		nm := c.Name
		if nm == "" {
			nm = fmt.Sprint(i)
		}
		e.oblige("post", fmt.Sprintf("%s@ret%d", nm, e.retCount-1), nm, g, goal, ins.Pos(), c.Src)
	}
	for i, c := range e.fc.RetAsserts {
		rc := e.ctxReturn(st, ins)
		rc.paramsFirst = false
		nm := c.Name
		if nm == "" {
			nm = fmt.Sprint(i)
		}
		goal, ok := e.tryEvalBool(rc, c)
		if !ok {
			continue
		}
		e.oblige("ret", fmt.Sprintf("%s@ret%d", nm, e.retCount-1), nm, g, goal, ins.Pos(), c.Src)
	}
	e.frameObligation(st, g, ins.Pos())
}

func (e *Enc) encPanic(ins *ssa.Panic, st *State) {
	// type-level check: is the panic value error-typed?
	n := e.ordinal("safe:panic-type")
	o := e.oblige("safe:panic-type", fmt.Sprintf("@%d", n), "", "true", "true", ins.Pos(), "")
	o.Static = true
	var dyn types.Type
	switch x := ins.X.(type) {
	case *ssa.MakeInterface:
		dyn = x.X.Type()
	case *ssa.ChangeInterface:
		dyn = x.X.Type()
	default:
		dyn = ins.X.Type()
	}
	errT := types.Universe.Lookup("error").Type().Underlying().(*types.Interface)
	o.StaticOK = types.Implements(dyn, errT)
	o.Note = "panic value type " + typeStr(dyn)
	if !o.StaticOK {
		o.Model = "panic with a value of type " + typeStr(dyn) + ", which is not an error"
	}
	if e.fc != nil && e.fc.NoPanic {
		k := e.ordinal("safe:nopanic")
		e.oblige("safe:nopanic", fmt.Sprintf("@%d", k), "", e.guardAt(), "false", ins.Pos(), "nopanic")
	}
}

// goalOf evaluates a clause that becomes an obligation. A clause naming a local that no longer exists
// in the function is stale: its goal is `false` with the reason attached to the clause text, so that
// only the groups of that clause fail and the rest of the contract is still checked.
func (e *Enc) goalOf(ctx *evalCtx, c *Clause) (goal string, src string) {
	defer func() {
		if r := recover(); r != nil {
			if ee, isE := r.(encErr); isE && strings.Contains(string(ee), "unresolved name") {
				msg := string(ee)
				if i := strings.Index(msg, " ["); i >= 0 {
					msg = msg[:i]
				}
				e.note(fmt.Sprintf("stale clause %q: %s", c.Name, msg))
				goal, src = "false", c.Src+"   [STALE CLAUSE: "+msg+" - the code no longer has what this clause talks about]"
				return
			}
			panic(r)
		}
	}()
	return ctx.evalBool(c), c.Src
}

// factOf evaluates a clause that becomes an assumption; a stale clause assumes nothing.
func (e *Enc) factOf(ctx *evalCtx, c *Clause) (fact string) {
	defer func() {
		if r := recover(); r != nil {
			if ee, isE := r.(encErr); isE && strings.Contains(string(ee), "unresolved name") {
				fact = "true"
				return
			}
			panic(r)
		}
	}()
	return ctx.evalBool(c)
}

// tryEvalBool evaluates a clause; an unresolved local name makes the clause inapplicable (ok=false).
func (e *Enc) tryEvalBool(ctx *evalCtx, c *Clause) (goal string, ok bool) {
	defer func() {
		if r := recover(); r != nil {
			if ee, isE := r.(encErr); isE && strings.Contains(string(ee), "unresolved name") {
				e.note(fmt.Sprintf("clause %q skipped at a return where a local it names is not in scope", c.Name))
				goal, ok = "", false
				return
			}
			panic(r)
		}
	}()
	return ctx.evalBool(c), true
}

package dawn

// BOUNDED stand-in (not a proof): the checksum of a source directory, computed by the real fileSum on
// temporary directories, distinguishes every pair of small directory trees that differ (content edit,
// rename, added or removed entry, moved file) and does not depend on the order in which the entries
// were created.

import (
	"encoding/json"
	"fmt"
	"os"
	"path/filepath"
	"sort"
	"testing"
)

type verifTree map[string]string // relative path -> content

func verifMaterialize(t *testing.T, tree verifTree, order []string) string {
	dir := t.TempDir()
	for _, p := range order {
		full := filepath.Join(dir, "src", p)
		if err := os.MkdirAll(filepath.Dir(full), 0o755); err != nil {
			t.Fatal(err)
		}
		if err := os.WriteFile(full, []byte(tree[p]), 0o644); err != nil {
			t.Fatal(err)
		}
	}
	if len(order) == 0 {
		os.MkdirAll(filepath.Join(dir, "src"), 0o755)
	}
	sum, err := fileSum(filepath.Join(dir, "src"))
	if err != nil {
		t.Fatal(err)
	}
	return sum
}

func TestVerifBoundedDirSum(t *testing.T) {
	names := []string{"a.txt", "b.txt", "c.txt", "sub/a.txt", "sub/d.txt"}
	contents := []string{"x", "y"}
	// all trees with up to 3 entries
	var trees []verifTree
	var rec func(i int, cur verifTree)
	rec = func(i int, cur verifTree) {
		if i == len(names) {
			cp := verifTree{}
			for k, v := range cur {
				cp[k] = v
			}
			trees = append(trees, cp)
			return
		}
		rec(i+1, cur)
		if len(cur) < 3 {
			for _, c := range contents {
				cur[names[i]] = c
				rec(i+1, cur)
				delete(cur, names[i])
			}
		}
	}
	rec(0, verifTree{})
	key := func(tr verifTree) string {
		var ks []string
		for k, v := range tr {
			ks = append(ks, k+"="+v)
		}
		sort.Strings(ks)
		return fmt.Sprint(ks)
	}
	sums := map[string]string{} // sum -> tree key
	total, nontrivial, failures := 0, 0, 0
	var samples []string
	for _, tr := range trees {
		var order []string
		for k := range tr {
			order = append(order, k)
		}
		sort.Strings(order)
		s1 := verifMaterialize(t, tr, order)
		// reverse creation order
		rev := append([]string{}, order...)
		for i, j := 0, len(rev)-1; i < j; i, j = i+1, j-1 {
			rev[i], rev[j] = rev[j], rev[i]
		}
		s2 := verifMaterialize(t, tr, rev)
		total += 2
		if len(tr) > 0 {
			nontrivial++
		}
		if s1 != s2 {
			failures++
			if failures <= 8 {
				t.Errorf("tree %s: checksum depends on the order the entries were created in", key(tr))
			}
		}
		if prev, ok := sums[s1]; ok && prev != key(tr) {
			failures++
			if failures <= 8 {
				t.Errorf("directories %s and %s have the same checksum", prev, key(tr))
			}
		}
		sums[s1] = key(tr)
		if len(samples) < 5 && total%97 == 1 {
			samples = append(samples, key(tr)+" -> "+s1[:12])
		}
	}
	if f := os.Getenv("VERIF_BOUNDED_STATS"); f != "" {
		data, _ := json.Marshal(map[string]interface{}{"evaluations": total, "distinct_nontrivial": nontrivial, "failures": failures, "samples": samples,
			"rule": "all directory trees with up to 3 entries out of 5 paths (two levels) x 2 contents, each materialised in two creation orders; all pairs compared by checksum; non-trivial = non-empty tree", "exhaustive": true})
		os.WriteFile(f, data, 0o644)
	}
	if failures > 0 {
		t.Fatalf("%d failures over %d trees", failures, len(trees))
	}
}

package label

// BOUNDED stand-in (not a proof): every string over {a, b, /, :, ., @} up to length VERIF_BOUND is run
// through the real Parse; for every accepted label that has a name or has no kind, printing and
// re-parsing yields the identical label, printing is canonical (equal prints <=> equal labels), and
// the same holds after RelativeTo against a package. Parse must not panic on any string.

import (
	"encoding/json"
	"fmt"
	"os"
	"strconv"
	"testing"
)

func TestVerifBoundedLabel(t *testing.T) {
	bound := 7
	if s := os.Getenv("VERIF_BOUND"); s != "" {
		bound, _ = strconv.Atoi(s)
	}
	alphabet := []byte{'a', 'b', '/', ':', '.', '@'}
	total, accepted, failures := 0, 0, 0
	var samples []string
	prints := map[string]Label{}
	fail := func(f string, a ...interface{}) {
		failures++
		if failures <= 10 {
			t.Errorf(f, a...)
		}
	}
	var rec func(buf []byte)
	check := func(s string) {
		total++
		var l *Label
		var err error
		func() {
			defer func() {
				if r := recover(); r != nil {
					fail("Parse(%q) panicked: %v", s, r)
				}
			}()
			l, err = Parse(s)
		}()
		if err != nil || l == nil {
			return
		}
		if l.Kind != "" && l.Name == "" {
			return // the syntax cannot spell a kind without a name
		}
		accepted++
		check1 := func(what string, l *Label) {
			p := l.String()
			l2, err := Parse(p)
			if err != nil {
				fail("%s: Parse(%q) ok but re-parsing its print %q fails: %v", what, s, p, err)
				return
			}
			if *l2 != *l {
				fail("%s: Parse(%q) = %+v prints %q which parses to %+v", what, s, *l, p, *l2)
			}
			if prev, ok := prints[p]; ok && prev != *l {
				fail("%s: labels %+v and %+v both print %q", what, prev, *l, p)
			}
			prints[p] = *l
		}
		check1("label", l)
		for _, pkg := range []string{"//", "//a", "//a/b"} {
			r, err := l.RelativeTo(pkg)
			if err == nil && r != nil {
				check1("relative to "+pkg, r)
			}
		}
		if len(samples) < 6 && accepted%9973 == 1 {
			samples = append(samples, fmt.Sprintf("%q -> %+v", s, *l))
		}
	}
	rec = func(buf []byte) {
		check(string(buf))
		if len(buf) == bound {
			return
		}
		for _, c := range alphabet {
			rec(append(buf, c))
		}
	}
	rec(nil)
	if f := os.Getenv("VERIF_BOUNDED_STATS"); f != "" {
		data, _ := json.Marshal(map[string]interface{}{"evaluations": total, "distinct_nontrivial": accepted, "failures": failures, "samples": samples,
			"rule": fmt.Sprintf("all strings over {a,b,/,:,.,@} up to length %d through the real Parse; non-trivial = accepted label with a name or without a kind", bound), "exhaustive": true})
		os.WriteFile(f, data, 0o644)
	}
	if failures > 0 {
		t.Fatalf("%d failures over %d strings", failures, total)
	}
}

package dawn

// Replay harness for (*dawn.runTarget).Evaluate#step:L0/dep-checked: a target may be skipped only if
// every dependency still has the stamp the target recorded. History: //:top and //:mid both read
// in.txt; full build; edit in.txt; build only //:mid (which records the new checksum of in.txt); full
// build: in.txt is now "up to date" in its own record, only its stamp tells //:top that it changed.

import (
	"os"
	"path/filepath"
	"testing"

	"github.com/pgavlin/dawn/label"
	starlark_os "github.com/pgavlin/dawn/lib/os"
	starlark_sh "github.com/pgavlin/dawn/lib/sh"
	starlark_json "go.starlark.net/lib/json"
	"go.starlark.net/starlark"
)

const verifStampBuildFile = `
@target(sources=["in.txt"], generates=["mid.out"])
def mid():
    sh.exec("cp in.txt mid.out")

@target(sources=["in.txt"], generates=["top.out"], default=True)
def top():
    sh.exec("cp in.txt top.out")
`

func verifStampBuild(t *testing.T, dir, rawlabel string) {
	t.Helper()
	l, err := label.Parse(rawlabel)
	if err != nil {
		t.Fatal(err)
	}
	proj, err := Load(dir, &LoadOptions{Builtins: starlark.StringDict{"json": starlark_json.Module, "os": starlark_os.Module, "sh": starlark_sh.Module}})
	if err != nil {
		t.Fatal(err)
	}
	if err := proj.Run(l, nil); err != nil {
		t.Fatalf("build %s: %v", rawlabel, err)
	}
}

func TestVerifReplaySourceStamp(t *testing.T) {
	dir := t.TempDir()
	write := func(name, s string) {
		if err := os.WriteFile(filepath.Join(dir, name), []byte(s), 0o644); err != nil {
			t.Fatal(err)
		}
	}
	read := func(name string) string {
		b, _ := os.ReadFile(filepath.Join(dir, name))
		return string(b)
	}
	write(".dawnconfig", "")
	write("BUILD.dawn", verifStampBuildFile)
	write("in.txt", "version 1\n")
	verifStampBuild(t, dir, "//:default")
	if read("top.out") != "version 1\n" {
		t.Fatalf("first build: top.out = %q", read("top.out"))
	}
	write("in.txt", "version 2\n")
	verifStampBuild(t, dir, "//:mid") // partial build of the sub-target
	if read("mid.out") != "version 2\n" {
		t.Fatalf("partial build: mid.out = %q", read("mid.out"))
	}
	verifStampBuild(t, dir, "//:default")
	if got := read("top.out"); got != "version 2\n" {
		t.Fatalf("after edit, partial build of //:mid and a successful full build, top.out = %q: //:top was reported up to date although the checksum of its source differs from the one it recorded", got)
	}
}

package dawn

// Replay harness for lineWriter obligations (injected by overlay; never written to /repo).
// Fails when the real code delivers a line twice or out of order.

import (
	"reflect"
	"testing"

	"github.com/pgavlin/dawn/label"
)

type verifReplayEvents struct {
	discardEventsT
	lines []string
}

func (e *verifReplayEvents) Print(_ *label.Label, line string) { e.lines = append(e.lines, line) }

func TestVerifReplayLineWriterFlush(t *testing.T) {
	ev := &verifReplayEvents{}
	w := newLineWriter(&label.Label{Package: "//", Name: "t"}, ev)
	w.Write([]byte("abc"))
	w.Flush()
	w.Write([]byte("def\n"))
	w.Flush()
	want := []string{"abc", "def"}
	if !reflect.DeepEqual(ev.lines, want) {
		t.Fatalf("Write(abc) Flush Write(def\\n) Flush delivered %q, want %q (Flush left its buffer non-empty)", ev.lines, want)
	}
}

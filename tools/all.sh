#!/bin/bash
# Run every claimed check (quick tier) and print one line each; exit 1 if any is not clean.
cd "$(dirname "$0")/.."
bad=0
for id in $(python3 -c "import json; print(' '.join(c['property_id'] for c in json.load(open('MANIFEST.json'))['checks']))"); do
  out=$(./check $id 2>&1); rc=$?
  echo "$out" | tail -1
  if [ $rc -ne 0 ]; then bad=1; echo "$out" | grep "VIOLATION\|INTERNAL" | head -5; fi
done
exit $bad

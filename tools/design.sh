#!/bin/bash
# Rebuild DESIGN.md section 10 from tools/design_sec10.md.tmpl + generated tables.
python3 - <<'PY'
import subprocess
s=open('/verif/DESIGN.md').read()
i=s.find('\n## 10. As built')
if i>=0: s=s[:i]
sec=open('/verif/tools/design_sec10.md.tmpl').read()
asb=subprocess.check_output(['/verif/tools/asbuilt.py'],text=True)
seed=subprocess.check_output(['/verif/tools/seedtable.py'],text=True)
sec=sec.replace('@@ASBUILT@@',asb).replace('@@SEEDTABLE@@',seed)
open('/verif/DESIGN.md','w').write(s.rstrip('\n')+'\n'+sec)
PY

package main

// Function encoder: go/ssa body + contracts -> SMT obligations.

import (
	"go/ast"
	"regexp"
	"fmt"
	"go/token"
	"go/types"
	"math/big"
	"sort"
	"strings"

	"golang.org/x/tools/go/ssa"
)

type Obligation struct {
	Fn     string // function key (with variant)
	Kind   string // post, pre, inv-entry, inv-keep, step, safe:idx, lock:held, mon, ...
	Detail string
	Name   string // Fn#Kind:Detail
	Group  string // Fn#Kind[:callee] pattern group
	Guard  string
	Goal   string
	Pos    string
	Static bool // decided without the solver
	StaticOK bool
	Note   string
	Cover  bool // must be SAT (vacuity guard)
	Src    string // contract clause text
	// results
	Result  string // unsat/sat/unknown/timeout
	Backend string
	Ms      int64
	Model   string
	Script  string
	nAsserts int // assumptions in force when the obligation was generated
	block    *ssa.BasicBlock
}

type State struct {
	m       map[string]string
	noLocks bool // a freshly spawned goroutine holds no locks
}

func (s *State) clone() *State {
	n := &State{m: make(map[string]string, len(s.m)), noLocks: s.noLocks}
	for k, v := range s.m {
		n.m[k] = v
	}
	return n
}

type sel struct {
	field int    // field index when !isIdx
	idx   string // index term when isIdx
	isIdx bool
}

type lvalue struct {
	baseVal ssa.Value // SSA value the base term comes from, when known
	base  string
	root  types.Type // type of the object at base (element type when elems)
	elems bool       // object at base is a backing array of `root` elements
	path  []sel
	fresh bool // base was allocated in this function (not yet shared)
}

type loopInfo struct {
	header   *ssa.BasicBlock
	name     string // source text of the range operand when it is an identifier or selector (range loops)
	byName   bool   // the contract addresses this loop by name (`loop over x`)
	ordinal  int
	backs    []*ssa.BasicBlock // sources of back edges
	body     map[*ssa.BasicBlock]bool
	havoc    map[string]bool
	headerSt *State
}

// writeInfo summarises the writes a loop body performs to one Ref-indexed state key.
type writeInfo struct {
	unknown bool            // some write has a base that is not loop-invariant (or comes from a callee's frame)
	bases   map[ssa.Value]bool // bases of writes whose base is defined outside the loop
}

type deferRec struct {
	instr *ssa.Defer
	block *ssa.BasicBlock
}

type Enc struct {
	w    *World
	fn   *ssa.Function
	key  string
	fc   *FuncContract
	mode Mode
	st   *SortTable

	decls    []string
	declSeen map[string]bool
	asserts  []string
	axioms   []condAxiom
	assertBlk []*ssa.BasicBlock // block that produced each assumption (nil = global fact)
	globalMode int             // >0: assumptions being added are global facts
	anc      map[*ssa.BasicBlock]map[*ssa.BasicBlock]bool
	obls     []*Obligation
	notes    map[string]bool
	usedSpecs map[string]bool

	val      map[ssa.Value]string
	tup      map[ssa.Value][]string
	lv       map[ssa.Value]*lvalue
	override map[ssa.Value]string
	closures map[ssa.Value]*ssa.MakeClosure
	cellClosure map[*ssa.Alloc]*ssa.MakeClosure
	elemRange map[string]types.Type
	unescaped map[ssa.Value]bool

	keySort  map[string]string
	keyOrder []string
	newKeys  bool

	in, out map[*ssa.BasicBlock]*State
	reach   map[*ssa.BasicBlock]string
	init    *State
	loops   map[*ssa.BasicBlock]*loopInfo
	loopList []*loopInfo
	order   []*ssa.BasicBlock
	defers  []deferRec
	havocSets map[int]map[string]bool // by loop ordinal, persisted across passes
	loopWrites map[int]map[string]*writeInfo // by loop ordinal and key, persisted across passes
	changed bool

	n         int
	strConsts map[string]string
	params    map[string]TV
	paramList []string
	callCount map[string]int
	kindCount map[string]int
	curBlock  *ssa.BasicBlock
	curIdx    int
	pass      int
	retCount  int
	quiet     bool
}

type TV struct {
	T    string
	Typ  types.Type
	Sort string
	Cell bool // T is the address of a captured variable: the name denotes the variable's current value
}

func NewEnc(w *World, fn *ssa.Function, fc *FuncContract) *Enc {
	mode := ModeInt
	if fc != nil && fc.Mode == "bv" {
		mode = ModeBV
	}
	e := &Enc{w: w, fn: fn, key: fnKey(fn), fc: fc, mode: mode}
	e.havocSets = map[int]map[string]bool{}
	e.loopWrites = map[int]map[string]*writeInfo{}
	e.keySort = map[string]string{}
	return e
}

func (e *Enc) resetPass() {
	e.st = NewSortTable(e.mode)
	e.decls = nil
	e.declSeen = map[string]bool{}
	e.asserts = nil
	e.assertBlk = nil
	e.obls = nil
	e.notes = map[string]bool{}
	e.usedSpecs = map[string]bool{}
	e.val = map[ssa.Value]string{}
	e.tup = map[ssa.Value][]string{}
	e.lv = map[ssa.Value]*lvalue{}
	e.override = map[ssa.Value]string{}
	e.closures = map[ssa.Value]*ssa.MakeClosure{}
	e.cellClosure = map[*ssa.Alloc]*ssa.MakeClosure{}
	if e.elemRange == nil {
		e.elemRange = map[string]types.Type{}
	}
	e.in = map[*ssa.BasicBlock]*State{}
	e.out = map[*ssa.BasicBlock]*State{}
	e.reach = map[*ssa.BasicBlock]string{}
	e.defers = nil
	e.n = 0
	e.strConsts = map[string]string{}
	e.params = map[string]TV{}
	e.paramList = nil
	e.callCount = map[string]int{}
	e.kindCount = map[string]int{}
	e.newKeys = false
	e.changed = false
	e.retCount = 0
}

func (e *Enc) fullKey() string {
	if e.fc != nil && e.fc.Variant != "" {
		return e.key + "/" + e.fc.Variant
	}
	return e.key
}

func (e *Enc) fresh(prefix string) string {
	e.n++
	return q(fmt.Sprintf("%s!%d", prefix, e.n))
}

func (e *Enc) declare(name, sort string) {
	if e.declSeen[name] {
		return
	}
	e.declSeen[name] = true
	e.decls = append(e.decls, fmt.Sprintf("(declare-const %s %s)", name, sort))
}

func (e *Enc) declareRaw(name, decl string) {
	if e.declSeen[name] {
		return
	}
	e.declSeen[name] = true
	e.decls = append(e.decls, decl)
}

func (e *Enc) freshConst(prefix, sort string) string {
	n := e.fresh(prefix)
	e.declare(n, sort)
	return n
}

func (e *Enc) assume(f string) {
	if f == "" || f == "true" {
		return
	}
	e.asserts = append(e.asserts, f)
	if e.globalMode > 0 {
		e.assertBlk = append(e.assertBlk, nil)
	} else {
		e.assertBlk = append(e.assertBlk, e.curBlock)
	}
}

// global runs f with every assumption it adds marked as a global fact (about constants declared once).
func (e *Enc) global(f func()) {
	e.globalMode++
	f()
	e.globalMode--
}

// ancestors of b in the forward-edge DAG (including b).
func (e *Enc) ancestors(b *ssa.BasicBlock) map[*ssa.BasicBlock]bool {
	if e.anc == nil {
		e.anc = map[*ssa.BasicBlock]map[*ssa.BasicBlock]bool{}
	}
	if a, ok := e.anc[b]; ok {
		return a
	}
	a := map[*ssa.BasicBlock]bool{b: true}
	e.anc[b] = a
	for _, p := range b.Preds {
		if isBackEdge(p, b) {
			continue
		}
		for x := range e.ancestors(p) {
			a[x] = true
		}
	}
	return a
}

func (e *Enc) note(s string) { e.notes[s] = true }

func (e *Enc) pos(p token.Pos) string {
	if !p.IsValid() {
		return ""
	}
	ps := e.w.Prog.Fset.Position(p)
	f := ps.Filename
	if i := strings.Index(f, "/repo/"); i >= 0 {
		f = f[i+6:]
	}
	return fmt.Sprintf("%s:%d", f, ps.Line)
}

func (e *Enc) oblige(kind, detail, group, guard, goal string, p token.Pos, src string) *Obligation {
	name := e.fullKey() + "#" + kind
	if detail != "" {
		name += ":" + detail
	}
	g := e.fullKey() + "#" + kind
	if group != "" {
		g += ":" + group
	}
	o := &Obligation{Fn: e.fullKey(), Kind: kind, Detail: detail, Name: name, Group: g, Guard: guard, Goal: goal, Pos: e.pos(p), Src: src, nAsserts: len(e.asserts), block: e.curBlock}
	e.obls = append(e.obls, o)
	return o
}

func (e *Enc) ordinal(kind string) int {
	n := e.kindCount[kind]
	e.kindCount[kind] = n + 1
	return n
}

// ---------- state ----------

func (e *Enc) isHeapKey(k string) bool {
	if strings.HasPrefix(k, "F:") && e.isStableKey(k) {
		return false // fields declared stable are written only by their listed writers (checked statically)
	}
	return strings.HasPrefix(k, "F:") || strings.HasPrefix(k, "E:") || strings.HasPrefix(k, "C:") || strings.HasPrefix(k, "MD:") || strings.HasPrefix(k, "MV:")
}

func (e *Enc) isStableKey(k string) bool {
	for tn, sc := range e.w.CS.Structs {
		for f := range sc.Stable {
			if k == "F:"+tn+"."+f {
				return true
			}
		}
	}
	return false
}

func (e *Enc) regKey(key, sort string) {
	if _, ok := e.keySort[key]; !ok {
		e.keySort[key] = sort
		e.keyOrder = append(e.keyOrder, key)
		e.newKeys = true
	}
}

func (e *Enc) initName(key string) string {
	n := q(key + "@0")
	if !e.declSeen[n] {
		e.declare(n, e.keySort[key])
		e.keyInvariant(key, n)
	}
	return n
}

func (e *Enc) get(st *State, key, sort string) string {
	e.regKey(key, sort)
	if st.noLocks && (strings.HasPrefix(key, "L:") || strings.HasPrefix(key, "LR:")) {
		return "((as const (Array Ref Bool)) false)"
	}
	if t, ok := st.m[key]; ok {
		return t
	}
	return e.initName(key)
}

func (e *Enc) set(st *State, key, sort, term string) {
	e.regKey(key, sort)
	n := e.fresh(key)
	e.declare(n, e.keySort[key])
	e.assume(fmt.Sprintf("(= %s %s)", n, term))
	st.m[key] = n
}

func (e *Enc) havocKey(st *State, key string) string {
	n := e.fresh(key)
	e.declare(n, e.keySort[key])
	e.keyInvariant(key, n)
	st.m[key] = n
	return n
}

func (e *Enc) havocHeap(st *State, why string) {
	e.note("havoc-all-heap: " + why)
	for _, k := range e.keyOrder {
		if e.isHeapKey(k) {
			e.havocKey(st, k)
		}
	}
}

func (e *Enc) newState() *State {
	return &State{m: map[string]string{}}
}

// field key helpers
func (e *Enc) fieldKey(structT types.Type, f *types.Var) (string, string) {
	key := "F:" + typeStr(structT) + "." + f.Name()
	return key, fmt.Sprintf("(Array Ref %s)", e.st.sortOf(f.Type()))
}
func (e *Enc) elemsKey(elem types.Type) (string, string) {
	s := e.st.sortOf(elem)
	k := "E:" + s
	if e.mode == ModeInt && isInt(elem) {
		// integer element types share the sort Int; keep them apart so range facts can be attached
		k = "E:Int:" + typeStr(elem.Underlying())
		if _, ok := e.elemRange[k]; !ok {
			e.elemRange[k] = elem
		}
	}
	return k, fmt.Sprintf("(Array Ref (Array %s %s))", e.st.idx(), s)
}

// slGet returns the term for element i of a slice with backing contents arr and offset off, through an
// uninterpreted accessor (defined by an axiom) so that quantified facts about slices have arithmetic-free triggers.
func (e *Enc) slGet(elem types.Type, arr, off, i string) string {
	s := e.st.sortOf(elem)
	if s == e.st.byteSort() && isInt(elem) {
		if w, _ := intInfo(elem); w == 8 {
			return fmt.Sprintf("(sl.get.byte %s %s %s)", arr, off, i)
		}
	}
	fn := q("sl.get:" + s)
	idx := e.st.idx()
	e.declareRaw(fn, fmt.Sprintf("(declare-fun %s ((Array %s %s) %s %s) %s)\n(assert (forall ((a (Array %s %s)) (o %s) (i %s)) (! (= (%s a o i) (select a (idx.add o i))) :pattern ((%s a o i)))))", fn, idx, s, idx, idx, s, idx, s, idx, idx, fn, fn))
	return fmt.Sprintf("(%s %s %s %s)", fn, arr, off, i)
}

// keyInvariant states type invariants of a fresh (unconstrained) version of a state key.
func (e *Enc) keyInvariant(key, name string) {
	e.globalMode++
	defer func() { e.globalMode-- }()
	if t, ok := e.elemRange[key]; ok {
		w, signed := intInfo(t)
		if w <= 16 && !signed {
			r := e.st.rangeOf("(select (select "+name+" r) i)", t)
			e.assume(fmt.Sprintf("(forall ((r Ref) (i Int)) (! %s :pattern ((select (select %s r) i))))", r, name))
		}
	}
}
func (e *Enc) cellKey(t types.Type) (string, string) {
	s := e.st.sortOf(t)
	return "C:" + s, fmt.Sprintf("(Array Ref %s)", s)
}
func (e *Enc) mapKeys(m *types.Map) (dk, ds, vk, vs string) {
	ks, vs0 := e.st.sortOf(m.Key()), e.st.sortOf(m.Elem())
	return "MD:" + ks + "|" + vs0, fmt.Sprintf("(Array Ref (Array %s Bool))", ks), "MV:" + ks + "|" + vs0, fmt.Sprintf("(Array Ref (Array %s %s))", ks, vs0)
}

const allocKey = "A:alloc"

func (e *Enc) allocArr(st *State) string { return e.get(st, allocKey, "(Array Ref Bool)") }

// ---------- CFG ----------

func (e *Enc) analyzeCFG() {
	fn := e.fn
	e.loops = map[*ssa.BasicBlock]*loopInfo{}
	e.loopList = nil
	// reachable blocks from entry
	reachable := map[*ssa.BasicBlock]bool{}
	var dfs func(b *ssa.BasicBlock)
	dfs = func(b *ssa.BasicBlock) {
		if reachable[b] {
			return
		}
		reachable[b] = true
		for _, s := range b.Succs {
			dfs(s)
		}
	}
	dfs(fn.Blocks[0])
	for _, b := range fn.Blocks {
		if !reachable[b] {
			continue
		}
		for _, s := range b.Succs {
			if s.Dominates(b) {
				li := e.loops[s]
				if li == nil {
					li = &loopInfo{header: s, body: map[*ssa.BasicBlock]bool{}}
					e.loops[s] = li
				}
				li.backs = append(li.backs, b)
			}
		}
	}
	var hs []*ssa.BasicBlock
	for h := range e.loops {
		hs = append(hs, h)
	}
	sort.Slice(hs, func(i, j int) bool { return hs[i].Index < hs[j].Index })
	for i, h := range hs {
		li := e.loops[h]
		li.ordinal = i
		// natural loop body
		li.body[h] = true
		var stack []*ssa.BasicBlock
		for _, b := range li.backs {
			if !li.body[b] {
				li.body[b] = true
				stack = append(stack, b)
			}
		}
		for len(stack) > 0 {
			b := stack[len(stack)-1]
			stack = stack[:len(stack)-1]
			for _, p := range b.Preds {
				if !li.body[p] && reachable[p] {
					li.body[p] = true
					stack = append(stack, p)
				}
			}
		}
		li.name = e.rangeOperandName(h)
		e.loopList = append(e.loopList, li)
	}
	// loops that share an operand name (or have none: plain `for` loops are named "for") are
	// distinguished by their occurrence in source order: name#1, name#2, ...
	{
		count := map[string]int{}
		for _, li := range e.loopList {
			if li.name == "" {
				li.name = "for"
			}
			count[li.name]++
		}
		seen := map[string]int{}
		for _, li := range e.loopList {
			if count[li.name] > 1 || li.name == "for" {
				seen[li.name]++
				li.name = fmt.Sprintf("%s#%d", li.name, seen[li.name])
			}
		}
	}
	if e.fc != nil {
		for nm := range e.fc.LoopsOver {
			n := 0
			for _, li := range e.loopList {
				if li.name == nm {
					n++
				}
			}
			if n != 1 {
				e.fail("contract addresses `loop over %s`, but the function has no such loop (loops: %s)", nm, e.loopNames())
			}
		}
	}
	// topological order ignoring back edges
	visited := map[*ssa.BasicBlock]bool{}
	var post []*ssa.BasicBlock
	var visit func(b *ssa.BasicBlock)
	visit = func(b *ssa.BasicBlock) {
		visited[b] = true
		for _, s := range b.Succs {
			if s.Dominates(b) { // back edge
				continue
			}
			if !visited[s] {
				visit(s)
			}
		}
		post = append(post, b)
	}
	visit(fn.Blocks[0])
	e.order = nil
	for i := len(post) - 1; i >= 0; i-- {
		e.order = append(e.order, post[i])
	}
}

func isBackEdge(from, to *ssa.BasicBlock) bool { return to.Dominates(from) }

// edgeCond returns the condition under which control flows from p to b.
func (e *Enc) edgeCond(p, b *ssa.BasicBlock) string {
	r := e.reach[p]
	last := p.Instrs[len(p.Instrs)-1]
	if iff, ok := last.(*ssa.If); ok {
		c := e.term(iff.Cond)
		if p.Succs[0] == b && p.Succs[1] == b {
			return r
		}
		if p.Succs[0] == b {
			return fmt.Sprintf("(and %s %s)", r, c)
		}
		return fmt.Sprintf("(and %s (not %s))", r, c)
	}
	return r
}

// ---------- main encode ----------

// Encode runs passes until key and havoc sets are stable.
func (e *Enc) Encode() (err error) {
	if len(e.fn.Blocks) == 0 {
		return fmt.Errorf("%s: no body", e.key)
	}
	defer func() {
		if r := recover(); r != nil {
			if ee, ok := r.(encErr); ok {
				err = fmt.Errorf("%s: %s", e.key, string(ee))
				return
			}
			panic(r)
		}
	}()
	e.analyzeCFG()
	for pass := 0; pass < 8; pass++ {
		e.pass = pass
		e.resetPass()
		if err := e.encodeOnce(); err != nil {
			return err
		}
		if !e.newKeys && !e.changed {
			return nil
		}
	}
	return fmt.Errorf("%s: encoding did not stabilise", e.key)
}

func (e *Enc) encodeOnce() (err error) {
	defer func() {
		if r := recover(); r != nil {
			if ee, ok := r.(encErr); ok {
				err = fmt.Errorf("%s: %s", e.key, string(ee))
				return
			}
			panic(r)
		}
	}()
	fn := e.fn
	e.curBlock = fn.Blocks[0]
	e.curIdx = 0
	e.init = e.newState()
	entry := e.init.clone()

	// parameters and free variables
	for _, p := range fn.Params {
		e.bindParam(p, p.Name(), entry)
	}
	for _, fv := range fn.FreeVars {
		e.bindParam(fv, fv.Name(), entry)
		e.assume(fmt.Sprintf("(not (= %s null))", e.val[fv]))
		if tv, ok := e.params[fv.Name()]; ok && tv.T == e.val[fv] {
			tv.Cell = true
			e.params[fv.Name()] = tv
		}
	}
	// null is allocated (so fresh objects differ from it)
	e.assume(fmt.Sprintf("(select %s null)", e.allocArr(entry)))

	// ghost initial values for thread entry are not assumed; requires carry them.
	// assume preconditions
	if e.fc != nil {
		for _, c := range e.fc.Requires {
			ctx := e.ctxEntry(entry)
			t := e.factOf(ctx, c)
			e.assume(t)
		}
	}
	e.assumeAxioms(entry)
	if e.fc != nil && e.fc.NoPanic {
		// anchor of the group: panic sites added later fail a group that is already claimed
		e.oblige("safe:nopanic", "declared", "", "true", "true", fn.Pos(), "nopanic")
	}

	for _, b := range e.order {
		e.encodeBlock(b, entry)
	}
	// record loop havoc set changes
	return nil
}

type encErr string

func (e *Enc) fail(f string, a ...interface{}) {
	panic(encErr(fmt.Sprintf(f, a...)))
}

func (e *Enc) bindParam(v ssa.Value, name string, st *State) {
	sort := e.st.sortOf(v.Type())
	c := q("p:" + name)
	if e.declSeen[c] {
		c = q("p:" + name + "'" + fmt.Sprint(len(e.paramList)))
	}
	e.declare(c, sort)
	e.val[v] = c
	if name != "" && name != "_" {
		if _, dup := e.params[name]; !dup {
			e.params[name] = TV{T: c, Typ: v.Type(), Sort: sort}
		}
	}
	e.paramList = append(e.paramList, name)
	e.assumeWF(c, v.Type(), st)
}

// assumeWF adds type-invariant assumptions for a value of Go type t.
func (e *Enc) assumeWF(term string, t types.Type, st *State) {
	switch u := t.Underlying().(type) {
	case *types.Basic:
		if r := e.st.rangeOf(term, t); r != "" {
			e.assume(r)
		}
	case *types.Slice:
		e.assume(fmt.Sprintf("(slice.wf %s)", term))
		e.assume(fmt.Sprintf("(select %s (sl.arr %s))", e.allocArr(st), term))
	case *types.Pointer, *types.Map:
		_ = u
		e.assume(fmt.Sprintf("(select %s %s)", e.allocArr(st), term))
	case *types.Interface:
		e.assume(fmt.Sprintf("(iface.wf %s)", term))
		e.assume(fmt.Sprintf("(=> ((_ is iface.ref) %s) (select %s (ifr.v %s)))", term, e.allocArr(st), term))
		e.assume(fmt.Sprintf("(=> ((_ is iface.ref) %s) (not (= (ifr.v %s) null)))", term, term))
		e.assume(fmt.Sprintf("(=> ((_ is iface.slice) %s) (slice.wf (ifl.v %s)))", term, term))
	}
}

func (e *Enc) mergeStates(b *ssa.BasicBlock, preds []*ssa.BasicBlock, conds []string) *State {
	if len(preds) == 1 {
		return e.out[preds[0]].clone()
	}
	st := e.newState()
	for _, k := range e.keyOrder {
		var terms []string
		same := true
		for i, p := range preds {
			t, ok := e.out[p].m[k]
			if !ok {
				t = e.initName(k)
			}
			terms = append(terms, t)
			if i > 0 && t != terms[0] {
				same = false
			}
		}
		if same {
			if _, ok := e.out[preds[0]].m[k]; ok {
				st.m[k] = terms[0]
			}
			continue
		}
		t := terms[len(terms)-1]
		for i := len(terms) - 2; i >= 0; i-- {
			t = fmt.Sprintf("(ite %s %s %s)", conds[i], terms[i], t)
		}
		e.set(st, k, e.keySort[k], t)
	}
	return st
}

func (e *Enc) encodeBlock(b *ssa.BasicBlock, entry *State) {
	e.curBlock = b
	var st *State
	li := e.loops[b]
	// predecessors via forward edges
	var fpreds []*ssa.BasicBlock
	var fconds []string
	for _, p := range b.Preds {
		if isBackEdge(p, b) {
			continue
		}
		if _, ok := e.out[p]; !ok {
			continue
		}
		if _, ok := e.reach[p]; !ok {
			continue
		}
		// a pred may appear twice in Preds (both If branches)
		dup := false
		for _, x := range fpreds {
			if x == p {
				dup = true
			}
		}
		if dup {
			continue
		}
		fpreds = append(fpreds, p)
		fconds = append(fconds, e.edgeCond(p, b))
	}
	if b == e.fn.Blocks[0] {
		st = entry
		e.reach[b] = "true"
	} else {
		if len(fpreds) == 0 {
			return // unreachable
		}
		st = e.mergeStates(b, fpreds, fconds)
		r := e.freshConst(fmt.Sprintf("reach.%d", b.Index), "Bool")
		if len(fconds) == 1 {
			e.assume(fmt.Sprintf("(= %s %s)", r, fconds[0]))
		} else {
			e.assume(fmt.Sprintf("(= %s (or %s))", r, strings.Join(fconds, " ")))
		}
		e.reach[b] = r
	}
	e.in[b] = st

	// phis (non-loop header): ite over forward preds
	if li == nil {
		for _, ins := range b.Instrs {
			phi, ok := ins.(*ssa.Phi)
			if !ok {
				break
			}
			e.encodePhi(b, phi, fpreds, fconds, st)
		}
	} else {
		e.enterLoop(b, li, fpreds, fconds, st)
		st = e.in[b]
	}

	for i, ins := range b.Instrs {
		e.curIdx = i
		if _, ok := ins.(*ssa.Phi); ok {
			continue
		}
		e.encodeInstr(b, ins, st)
	}
	e.out[b] = st

	// back edges out of this block: check invariant preservation
	for _, s := range b.Succs {
		if isBackEdge(b, s) {
			if l2 := e.loops[s]; l2 != nil {
				e.leaveLoop(b, l2, st)
			}
		}
	}
}

func (e *Enc) encodePhi(b *ssa.BasicBlock, phi *ssa.Phi, fpreds []*ssa.BasicBlock, fconds []string, st *State) {
	sortS := e.st.sortOf(phi.Type())
	var terms []string
	for i, p := range fpreds {
		_ = i
		for j, bp := range b.Preds {
			if bp == p {
				terms = append(terms, e.term(phi.Edges[j]))
				break
			}
		}
	}
	if len(terms) == 0 {
		e.val[phi] = e.freshConst("phi."+phi.Name(), sortS)
		return
	}
	t := terms[len(terms)-1]
	for i := len(terms) - 2; i >= 0; i-- {
		t = fmt.Sprintf("(ite %s %s %s)", fconds[i], terms[i], t)
	}
	n := e.freshConst("phi."+phi.Name(), sortS)
	e.assume(fmt.Sprintf("(= %s %s)", n, t))
	e.val[phi] = n
	// propagate lvalue info if all edges agree on the same alloc (rare); skip.
}

func (e *Enc) loopContract(li *loopInfo) *LoopContract {
	if e.fc == nil {
		return nil
	}
	if li.name != "" {
		if lc := e.fc.LoopsOver[li.name]; lc != nil {
			n := 0
			for _, o := range e.loopList {
				if o.name == li.name {
					n++
				}
			}
			if n == 1 {
				li.byName = true
				return lc
			}
		}
	}
	return e.fc.Loops[li.ordinal]
}

func (e *Enc) loopNames() string {
	var ns []string
	for _, li := range e.loopList {
		ns = append(ns, li.name)
	}
	return strings.Join(ns, ", ")
}

// tag names a loop in obligation names: by the range operand when the contract addresses it that way
// (stable when loops are added or removed elsewhere in the function), by ordinal otherwise.
func (li *loopInfo) tag() string {
	if li.byName {
		return "L(" + li.name + ")"
	}
	return fmt.Sprintf("L%d", li.ordinal)
}

var rangeNameRe = regexp.MustCompile(`^[A-Za-z_][A-Za-z0-9_]*(\.[A-Za-z_][A-Za-z0-9_]*)*$`)

// rangeOperandName finds the source text of the operand of a range loop with header h.
func (e *Enc) rangeOperandName(h *ssa.BasicBlock) string {
	var operand ssa.Value
	for _, ins := range h.Instrs {
		switch x := ins.(type) {
		case *ssa.BinOp:
			if c, ok := x.Y.(*ssa.Call); ok {
				if b, isB := c.Call.Value.(*ssa.Builtin); isB && b.Name() == "len" && len(c.Call.Args) == 1 {
					if ph, isPhi := x.X.(*ssa.BinOp); isPhi {
						if p, ok := ph.X.(*ssa.Phi); ok && p.Comment == "rangeindex" {
							operand = c.Call.Args[0]
						}
					}
				}
			}
		case *ssa.Next:
			if r, ok := x.Iter.(*ssa.Range); ok {
				operand = r.X
			}
		}
	}
	if operand == nil {
		return ""
	}
	if p, ok := operand.(*ssa.Parameter); ok {
		return p.Name()
	}
	// prefer the name of a variable or field the operand is bound to; fall back to the called function
	callName := ""
	for _, b := range e.fn.Blocks {
		for _, ins := range b.Instrs {
			if dr, ok := ins.(*ssa.DebugRef); ok && dr.X == operand && !dr.IsAddr {
				txt := types.ExprString(dr.Expr)
				if rangeNameRe.MatchString(txt) {
					return txt
				}
				if call, isCall := dr.Expr.(*ast.CallExpr); isCall && callName == "" {
					if ft := types.ExprString(call.Fun); rangeNameRe.MatchString(ft) {
						callName = ft + "()"
					}
				}
			}
		}
	}
	return callName
}

func (e *Enc) enterLoop(h *ssa.BasicBlock, li *loopInfo, fpreds []*ssa.BasicBlock, fconds []string, merged *State) {
	lc := e.loopContract(li)
	entryGuard := e.reach[h]
	// 1. invariant holds on entry: phis bound to entering values
	if lc != nil {
		for _, ins := range h.Instrs {
			phi, ok := ins.(*ssa.Phi)
			if !ok {
				break
			}
			var terms []string
			for _, p := range fpreds {
				for j, bp := range h.Preds {
					if bp == p {
						terms = append(terms, e.term(phi.Edges[j]))
						break
					}
				}
			}
			t := terms[len(terms)-1]
			for i := len(terms) - 2; i >= 0; i-- {
				t = fmt.Sprintf("(ite %s %s %s)", fconds[i], terms[i], t)
			}
			e.override[phi] = t
		}
		for i, c := range lc.Invariants {
			ctx := e.ctxAt(merged, h, 0)
			ctx.headerOf = li
			goal, src := e.goalOf(ctx, c)
			nm := c.Name
			if nm == "" {
				nm = fmt.Sprint(i)
			}
			e.oblige("inv-entry", li.tag()+"/"+nm, li.tag()+"/"+nm, entryGuard, goal, h.Instrs[0].Pos(), src)
		}
		for k := range e.override {
			delete(e.override, k)
		}
	}
	// 2. havoc: phis and modified keys
	st := merged.clone()
	hs := e.havocSets[li.ordinal]
	var hk []string
	for k := range hs {
		hk = append(hk, k)
	}
	sort.Strings(hk)
	for _, k := range hk {
		if _, ok := e.keySort[k]; ok {
			old := e.get(st, k, e.keySort[k])
			n := e.havocKey(st, k)
			if k == allocKey {
				// allocation only grows across iterations
				e.assume(fmt.Sprintf("(forall ((r Ref)) (! (=> (select %s r) (select %s r)) :pattern ((select %s r))))", old, n, old))
				e.assume(fmt.Sprintf("(select %s null)", n))
			}
			// objects that exist before the loop and are not written by it keep their contents
			if wi := e.loopWrites[li.ordinal][k]; wi != nil && !wi.unknown && strings.HasPrefix(e.keySort[k], "(Array Ref ") && (e.isHeapKey(k) || strings.HasPrefix(k, "F:")) {
				var conds []string
				conds = append(conds, fmt.Sprintf("(select %s r)", e.allocArr(merged)))
				var bs []string
				for b := range wi.bases {
					t := e.term(b)
					if _, isSl := b.(*ssa.MakeSlice); isSl {
						t = fmt.Sprintf("(sl.arr %s)", t)
					}
					bs = append(bs, t)
				}
				sort.Strings(bs)
				for _, b := range bs {
					conds = append(conds, fmt.Sprintf("(not (= r %s))", b))
				}
				e.assume(fmt.Sprintf("(forall ((r Ref)) (! (=> (and %s) (= (select %s r) (select %s r))) :pattern ((select %s r))))", strings.Join(conds, " "), n, old, n))
			}
		}
	}
	for _, ins := range h.Instrs {
		phi, ok := ins.(*ssa.Phi)
		if !ok {
			break
		}
		n := e.freshConst("lphi."+phi.Name()+"."+phi.Comment, e.st.sortOf(phi.Type()))
		e.val[phi] = n
		e.assumeWFg(n, phi.Type(), st, "true")
		if phi.Comment == "rangeindex" {
			// built-in fact about range loops: the hidden index starts at -1 and only grows
			e.assume(e.st.cmpInt(token.GEQ, n, e.st.intLit(big.NewInt(-1), phi.Type()), phi.Type()))
		}
	}
	// the loop header, in the havoc world, is reachable at an arbitrary iteration
	r := e.freshConst(fmt.Sprintf("reach.loop.%d", h.Index), "Bool")
	e.reach[h] = r
	// being at the top of some iteration implies the loop was entered
	e.assume(fmt.Sprintf("(=> %s %s)", r, entryGuard))
	li.headerSt = st.clone()
	e.in[h] = st
	// 3. assume invariants
	if lc != nil {
		for _, c := range lc.Invariants {
			ctx := e.ctxAt(st, h, 0)
			ctx.headerOf = li
			e.assume(fmt.Sprintf("(=> %s %s)", r, e.factOf(ctx, c)))
		}
	} else {
		e.note(fmt.Sprintf("loop L%d of %s has no invariant (havoc only)", li.ordinal, e.key))
	}
	// cover: loop body reachable
	o := e.oblige("cover", "loop-"+li.tag(), "", "true", r, h.Instrs[0].Pos(), "")
	o.Cover = true
}

func (e *Enc) assumeWFg(term string, t types.Type, st *State, guard string) {
	n := len(e.asserts)
	e.assumeWF(term, t, st)
	if guard != "true" {
		for i := n; i < len(e.asserts); i++ {
			e.asserts[i] = fmt.Sprintf("(=> %s %s)", guard, e.asserts[i])
		}
	}
}

func (e *Enc) leaveLoop(from *ssa.BasicBlock, li *loopInfo, st *State) {
	h := li.header
	guard := e.edgeCond(from, h)
	// update havoc set: keys whose term differs from the header state
	hs := e.havocSets[li.ordinal]
	if hs == nil {
		hs = map[string]bool{}
		e.havocSets[li.ordinal] = hs
	}
	for _, k := range e.keyOrder {
		a, aok := st.m[k]
		b, bok := li.headerSt.m[k]
		if aok != bok || a != b {
			if !hs[k] {
				hs[k] = true
				e.changed = true
			}
		}
	}
	lc := e.loopContract(li)
	if lc == nil {
		return
	}
	for _, ins := range h.Instrs {
		phi, ok := ins.(*ssa.Phi)
		if !ok {
			break
		}
		for j, bp := range h.Preds {
			if bp == from {
				e.override[phi] = e.term(phi.Edges[j])
				break
			}
		}
	}
	for i, c := range lc.Invariants {
		ctx := e.ctxAt(st, from, len(from.Instrs)-1)
		ctx.headerOf = li
		goal, src := e.goalOf(ctx, c)
		nm := c.Name
		if nm == "" {
			nm = fmt.Sprint(i)
		}
		e.oblige("inv-keep", fmt.Sprintf("%s/%s@b%d", li.tag(), nm, from.Index), li.tag()+"/"+nm, guard, goal, from.Instrs[len(from.Instrs)-1].Pos(), src)
	}
	for k := range e.override {
		delete(e.override, k)
	}
	// step clauses: evaluated at the back edge; old() = header state; phis keep header values.
	for _, sc := range lc.Steps {
		ctx := e.ctxAt(st, from, len(from.Instrs)-1)
		ctx.old = li.headerSt
		ctx.stepOf = li
		when, wsrc := e.goalOf(ctx, sc.When)
		goal, src := e.goalOf(ctx, sc.Ensures)
		if when == "false" && wsrc != sc.When.Src {
			when, goal, src = "true", "false", wsrc
		}
		e.oblige("step", fmt.Sprintf("%s/%s@b%d", li.tag(), sc.Name, from.Index), li.tag()+"/"+sc.Name, fmt.Sprintf("(and %s %s)", guard, when), goal, from.Instrs[len(from.Instrs)-1].Pos(), src)
	}
}

// ---------- values ----------

func (e *Enc) strConst(s string) string {
	if s == "" {
		return "gs.empty"
	}
	if n, ok := e.strConsts[s]; ok {
		return n
	}
	n := q(fmt.Sprintf("str:%d:%s", len(e.strConsts), s))
	e.strConsts[s] = n
	e.declare(n, "Str")
	e.globalMode++
	defer func() { e.globalMode-- }()
	e.assume(fmt.Sprintf("(= (gs.len %s) %s)", n, e.st.idxLit(int64(len(s)))))
	if len(s) <= 16 {
		for i := 0; i < len(s); i++ {
			e.assume(fmt.Sprintf("(= (gs.at %s %s) %s)", n, e.st.idxLit(int64(i)), e.st.byteLit(int64(s[i]))))
		}
	}
	return n
}

func (e *Enc) term(v ssa.Value) string {
	if t, ok := e.override[v]; ok {
		return t
	}
	if t, ok := e.val[v]; ok {
		return t
	}
	switch v := v.(type) {
	case *ssa.Const:
		return e.constTerm(v)
	case *ssa.Global:
		n := q("glob:" + v.String())
		if !e.declSeen[n] {
			e.declare(n, "Ref")
			e.global(func() { e.assume(fmt.Sprintf("(not (= %s null))", n)) })
		}
		return n
	case *ssa.Function:
		n := q("fn:" + fnKey(v))
		e.declare(n, "Ref")
		return n
	case *ssa.Builtin:
		return "null"
	}
	// value from a block that was not encoded (unreachable / recover)
	n := e.freshConst("undef."+v.Name(), e.st.sortOf(v.Type()))
	e.val[v] = n
	return n
}

func (e *Enc) constTerm(c *ssa.Const) string {
	t := c.Type()
	if c.Value == nil {
		return e.st.zero(t)
	}
	if s, ok := e.st.constTerm(c.Value, t); ok {
		return s
	}
	if b, ok := t.Underlying().(*types.Basic); ok {
		if b.Info()&types.IsString != 0 {
			return e.strConst(constantString(c))
		}
		if b.Info()&types.IsFloat != 0 {
			n := q("float:" + c.Value.ExactString())
			e.declare(n, "Float")
			return n
		}
	}
	return e.freshConst("const", e.st.sortOf(t))
}

func (e *Enc) guardAt() string { return e.reach[e.curBlock] }

// recordWrite notes, for every loop around the current block, a write to key through lvalue l.
func (e *Enc) recordWrite(key string, l *lvalue) {
	for _, li := range e.loopList {
		if !li.body[e.curBlock] {
			continue
		}
		m := e.loopWrites[li.ordinal]
		if m == nil {
			m = map[string]*writeInfo{}
			e.loopWrites[li.ordinal] = m
		}
		wi := m[key]
		if wi == nil {
			wi = &writeInfo{bases: map[ssa.Value]bool{}}
			m[key] = wi
		}
		if l == nil || l.baseVal == nil {
			if !wi.unknown {
				wi.unknown = true
				e.changed = true
			}
			continue
		}
		switch v := l.baseVal.(type) {
		case *ssa.Parameter, *ssa.FreeVar, *ssa.Global:
			if !wi.bases[l.baseVal] {
				wi.bases[l.baseVal] = true
				e.changed = true
			}
		case ssa.Instruction:
			if li.body[v.Block()] {
				// defined inside the loop: a fresh allocation is not an object that existed at loop entry;
				// anything else may denote a different pre-existing object in every iteration
				switch v.(type) {
				case *ssa.Alloc, *ssa.MakeSlice, *ssa.MakeMap:
				default:
					if !wi.unknown {
						wi.unknown = true
						e.changed = true
					}
				}
			} else if !wi.bases[l.baseVal] {
				wi.bases[l.baseVal] = true
				e.changed = true
			}
		default:
			if !wi.unknown {
				wi.unknown = true
				e.changed = true
			}
		}
	}
}

// recordFreshWrite: a write to a freshly allocated object inside a loop does not touch pre-existing objects.
func (e *Enc) recordFreshWrite(key string) {
	for _, li := range e.loopList {
		if !li.body[e.curBlock] {
			continue
		}
		m := e.loopWrites[li.ordinal]
		if m == nil {
			m = map[string]*writeInfo{}
			e.loopWrites[li.ordinal] = m
		}
		if m[key] == nil {
			m[key] = &writeInfo{bases: map[ssa.Value]bool{}}
			e.changed = true
		}
	}
}

package dawn

// Replay harness for (*dawn.module).load#post:published-on-every-return: a module whose environment
// cannot be set up (here: it lives in a project that is not in the build list) must still be
// published as loaded-with-error, otherwise every other package that loads the same module waits
// forever. Two packages load the same unresolvable module; Load must return an error.

import (
	"os"
	"path/filepath"
	"testing"
	"time"
)

func TestVerifReplayModuleEnvFailure(t *testing.T) {
	dir := t.TempDir()
	write := func(name, s string) {
		p := filepath.Join(dir, name)
		os.MkdirAll(filepath.Dir(p), 0o755)
		if err := os.WriteFile(p, []byte(s), 0o644); err != nil {
			t.Fatal(err)
		}
	}
	write(".dawnconfig", "")
	write("BUILD.dawn", "")
	write("a/BUILD.dawn", "load(\"@example.com/nowhere//lib:defs.dawn\", \"x\")\n")
	write("b/BUILD.dawn", "load(\"@example.com/nowhere//lib:defs.dawn\", \"x\")\n")
	done := make(chan error, 1)
	go func() {
		_, err := Load(dir, &LoadOptions{})
		done <- err
	}()
	select {
	case err := <-done:
		if err == nil {
			t.Fatal("Load succeeded although a module cannot be resolved")
		}
		t.Logf("Load returned: %v", err)
	case <-time.After(10 * time.Second):
		t.Fatal("Load hangs: the module whose environment could not be set up was never published, and the second package loading it waits forever")
	}
}

package project

// Replay harness for project.WriteConfigFile#callsite:bare-key-is-valid: a written configuration loads
// back to the same configuration, also for requirement names that are not valid bare keys.

import (
	"path/filepath"
	"reflect"
	"testing"
)

func TestVerifReplayConfigKey(t *testing.T) {
	for _, name := range []string{"", "plain", "needs quoting", "dotted.name"} {
		c := &Config{Name: "p", Requirements: map[string]RequirementConfig{name: {Path: "example.com/x", Version: "v1.2.3"}}}
		path := filepath.Join(t.TempDir(), "dawn.toml")
		if err := WriteConfigFile(path, c); err != nil {
			t.Fatalf("write (requirement name %q): %v", name, err)
		}
		got, err := LoadConfigFile(path)
		if err != nil {
			t.Errorf("requirement name %q: the written file does not load: %v", name, err)
			continue
		}
		if !reflect.DeepEqual(got, c) {
			t.Errorf("requirement name %q: loaded %+v, wrote %+v", name, got, c)
		}
	}
}

#!/usr/bin/env python3
"""Print the markdown table of seeded changes and the obligation groups that caught them (from seeded/*/meta.json)."""
import json, glob, os
print("| seeded change | what it does | caught by (first failing obligation groups) |")
print("|---|---|---|")
for d in sorted(glob.glob('/verif/seeded/*')):
    m = json.load(open(d + '/meta.json'))
    title = ''
    if os.path.exists(d + '/README.md'):
        title = open(d + '/README.md').readline().strip('# \n')
        for sep in (' — ', ' - ', ': '):
            if sep in title:
                title = title.split(sep, 1)[1]
                break
    caught = []
    for c, r in (m.get('check_results') or {}).items():
        if isinstance(r, dict) and r.get('exit') == 1:
            g = [x.replace('failed obligation group: ', '') for x in r.get('failed', [])]
            g = [('bounded stand-in ' + x.split('(')[0].replace('bounded ', '').strip()) if x.startswith('bounded') else x for x in g]
            n = len(g)
            s = ', '.join('`%s`' % x for x in g[:2]) + (' (+%d more: contract of the function no longer fits)' % (n - 2) if n > 2 else '')
            caught.append('%s: %s' % (c, s))
    if not caught:
        caught = ['**not detected**']
    print('| %s | %s | %s |' % (os.path.basename(d), title.replace('|', '/'), '; '.join(caught)))

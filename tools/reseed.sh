#!/bin/bash
# Re-run stored seeded changes against the checks: tools/reseed.sh C01-A C17-A ...   (all when no argument)
cd /verif
names="$@"; [ -z "$names" ] && names=$(ls seeded)
for n in $names; do
  d=seeded/$n; prop=${n%%-*}; var=${n#*-}
  pk=$(python3 -c "import json; m=json.load(open('$d/meta.json')); print(m['demo_pkg_dir'])")
  run=$(python3 -c "import json; m=json.load(open('$d/meta.json')); print(m['demo_run'])")
  checks=$(python3 -c "import json; m=json.load(open('$d/meta.json')); print(','.join(m['check_results'].keys()) or '$prop')")
  echo "== $n ($checks)"
  python3 tools/seed.py $prop $var $pk "$run" --checks $checks 2>&1 | python3 -c "
import sys,json
t=sys.stdin.read(); i=t.index('{'); d=json.loads(t[i:])
print('confirmed',d['confirmed'],'detected',d['detected'])
for c,r in d['check_results'].items(): print(' ',c, r['exit'], r.get('failed')[:4], len(r.get('failed')))
"
done

#!/usr/bin/env python3
"""Confirm a sub-agent's seeded change in a scratch worktree, store it under /verif/seeded/<name>/,
and run the registered checks against it (patch applied to /repo, reverted straight afterwards).

usage: tools/seed.py <property> <variant> <demo-pkg-dir> <run-pattern> [--checks C01,C02] [--what "text"]
"""
import json, os, shutil, subprocess, sys, time

ENV = dict(os.environ, GOFLAGS="-mod=mod", GOPROXY="off", GOSUMDB="off", GOTOOLCHAIN="local")

def run(cmd, cwd=None, timeout=900):
    p = subprocess.run(cmd, cwd=cwd, env=ENV, shell=True, capture_output=True, text=True, timeout=timeout)
    return p.returncode, (p.stdout + p.stderr)

def main():
    prop, var, pkgdir, pattern = sys.argv[1:5]
    checks = [prop]
    what = ""
    phase = "both"
    a = sys.argv[5:]
    while a:
        if a[0] == "--checks":
            checks = a[1].split(","); a = a[2:]
        elif a[0] == "--confirm-only":
            phase = "confirm"; a = a[1:]
        elif a[0] == "--check-only":
            phase = "check"; a = a[1:]
        elif a[0] == "--what":
            what = a[1]; a = a[2:]
        else:
            a = a[1:]
    src = f"/tmp/seed-{prop}/SEED/{var}"
    if not os.path.isdir(src):
        src = f"/tmp/seed7-{prop}/SEED/{var}"
    if not os.path.isdir(src):
        src = f"/tmp/seed8-{prop}/SEED/{var}"
    if not os.path.isdir(src):
        src = f"/verif/seeded/{prop}-{var}"   # already stored: re-run from the stored copy
    name = f"{prop}-{var}"
    dst = f"/verif/seeded/{name}"
    os.makedirs(dst, exist_ok=True)
    for f in ("patch.diff", "demo_test.go", "README.md"):
        if os.path.exists(os.path.join(src, f)) and os.path.abspath(src) != os.path.abspath(dst):
            shutil.copy(os.path.join(src, f), os.path.join(dst, f))
    meta = {"property": prop, "variant": var, "demo_pkg_dir": pkgdir, "demo_run": pattern, "needs_to_manifest": what, "ran": []}
    wt = f"/tmp/confirm-{name}"
    if phase == "check":
        meta = json.load(open(os.path.join(dst, "meta.json")))
    else:
        run(f"git -C /repo worktree remove --force {wt}")
        rc, out = run(f"git -C /repo worktree add --detach {wt} HEAD")
        assert rc == 0, out
    try:
        if phase == "check":
            raise StopIteration
        rc, out = run(f"git apply {dst}/patch.diff", cwd=wt)
        meta["patch_applies"] = rc == 0
        if rc != 0:
            print("PATCH DOES NOT APPLY", out)
        rc, out = run("go build ./... && go test -vet=off -count=1 ./...", cwd=wt)
        meta["suite_passes_with_change"] = rc == 0
        meta["ran"].append("go build ./... && go test -vet=off -count=1 ./...  (with change): rc=%d" % rc)
        demo = os.path.join(wt, pkgdir, "zz_seed_demo_test.go")
        def put_demo():
            # demos that carry a build tag (to keep them out of ./...) are copied without it
            txt = open(os.path.join(dst, "demo_test.go")).read()
            txt = "\n".join(l for l in txt.split("\n") if not l.startswith("//go:build") and not l.startswith("// +build"))
            open(demo, "w").write(txt)
        put_demo()
        cmd = f"go test -vet=off -count=1 -timeout 300s -run '{pattern}' ./{pkgdir}"
        rc, out = run(cmd, cwd=wt)
        meta["demo_fails_with_change"] = rc != 0
        meta["ran"].append(f"{cmd} (with change): rc={rc}")
        meta["demo_output_with_change"] = out[-1500:]
        os.remove(demo)
        run("git checkout -- .", cwd=wt)
        put_demo()
        rc, out = run(cmd, cwd=wt)
        meta["demo_passes_without_change"] = rc == 0
        meta["ran"].append(f"{cmd} (without change): rc={rc}")
    except StopIteration:
        pass
    finally:
        if phase != "check":
            run(f"git -C /repo worktree remove --force {wt}")
    confirmed = all(meta.get(k) for k in ("patch_applies", "suite_passes_with_change", "demo_fails_with_change", "demo_passes_without_change"))
    meta["confirmed"] = confirmed
    if phase == "confirm":
        meta.setdefault("check_results", {})
        meta["detected"] = False
        json.dump(meta, open(os.path.join(dst, "meta.json"), "w"), indent=1)
        print(name, "confirmed", confirmed)
        return
    # run checks against /repo with the patch applied
    results = {}
    rc, out = run(f"git -C /repo apply {dst}/patch.diff")
    if rc != 0:
        results["apply_to_repo"] = out
    else:
        try:
            for c in checks:
                t0 = time.time()
                rc, out = run(f"./check {c} --no-evidence --out /tmp/seedrun-{name}-{c}", cwd="/verif", timeout=1800)
                vio = [l for l in out.splitlines() if l.startswith("VIOLATION") or l.startswith("INTERNAL")]
                groups = []
                for l in vio:
                    for w in l.split():
                        if w.startswith("replay="):
                            try:
                                for rl in open(w[7:]):
                                    if rl.startswith("failed obligation group:") or rl.startswith("bounded stand-in"):
                                        groups.append(rl.strip())
                            except OSError:
                                pass
                results[c] = {"exit": rc, "violations": vio[:12], "failed": groups[:12], "wall_s": round(time.time() - t0, 1)}
                shutil.rmtree(f"/tmp/seedrun-{name}-{c}", ignore_errors=True)
        finally:
            run("git -C /repo checkout -- .")
    meta["check_results"] = results
    meta["detected"] = any(isinstance(v, dict) and v.get("exit") == 1 for v in results.values())
    json.dump(meta, open(os.path.join(dst, "meta.json"), "w"), indent=1)
    print(json.dumps({k: meta[k] for k in ("confirmed", "detected", "check_results")}, indent=1))

main()

package diff

// BOUNDED stand-in (not a proof): exhaustive check of edit-script faithfulness of the real Diff on all
// pairs of sequences over a 3-letter alphabet up to length VERIF_BOUND, for tuples, lists, strings and
// bytes. Injected by overlay; never written to /repo.

import (
	"encoding/json"
	"fmt"
	"os"
	"strconv"
	"testing"

	"go.starlark.net/starlark"
)

func verifSeqs(n int) [][]int {
	out := [][]int{{}}
	frontier := [][]int{{}}
	for l := 1; l <= n; l++ {
		var next [][]int
		for _, s := range frontier {
			for c := 0; c < 3; c++ {
				t := append(append([]int{}, s...), c)
				next = append(next, t)
			}
		}
		out = append(out, next...)
		frontier = next
	}
	return out
}

type verifKind struct {
	name string
	mk   func([]int) starlark.Value
	elem func(starlark.Value) []starlark.Value // decompose a sliceable into comparable elements
}

func verifElems(v starlark.Value) []starlark.Value {
	switch v := v.(type) {
	case starlark.String:
		var out []starlark.Value
		for i := 0; i < len(v); i++ {
			out = append(out, starlark.String(v[i:i+1]))
		}
		return out
	case starlark.Bytes:
		var out []starlark.Value
		for i := 0; i < len(v); i++ {
			out = append(out, starlark.Bytes(v[i:i+1]))
		}
		return out
	case starlark.Indexable:
		var out []starlark.Value
		for i := 0; i < v.Len(); i++ {
			out = append(out, v.Index(i))
		}
		return out
	}
	return nil
}

func TestVerifBoundedDiff(t *testing.T) {
	bound := 5
	if s := os.Getenv("VERIF_BOUND"); s != "" {
		bound, _ = strconv.Atoi(s)
	}
	kinds := []verifKind{
		{"tuple", func(s []int) starlark.Value {
			var tup starlark.Tuple
			for _, c := range s {
				tup = append(tup, starlark.MakeInt(c))
			}
			if tup == nil {
				tup = starlark.Tuple{}
			}
			return tup
		}, verifElems},
		{"list", func(s []int) starlark.Value {
			var els []starlark.Value
			for _, c := range s {
				els = append(els, starlark.MakeInt(c))
			}
			return starlark.NewList(els)
		}, verifElems},
		{"string", func(s []int) starlark.Value {
			b := make([]byte, len(s))
			for i, c := range s {
				b[i] = byte('a' + c)
			}
			return starlark.String(b)
		}, verifElems},
		{"bytes", func(s []int) starlark.Value {
			b := make([]byte, len(s))
			for i, c := range s {
				b[i] = byte('a' + c)
			}
			return starlark.Bytes(b)
		}, verifElems},
	}
	seqs := verifSeqs(bound)
	pairs, nontrivial, failures := 0, 0, 0
	var samples []string
	fail := func(f string, a ...interface{}) {
		failures++
		if failures <= 10 {
			t.Errorf(f, a...)
		}
	}
	for _, k := range kinds {
		for _, a := range seqs {
			for _, b := range seqs {
				// lists of different kinds are only enumerated at full bound for tuples; others at bound-1 to bound cost
				if k.name != "tuple" && (len(a) > bound-1 || len(b) > bound-1) {
					continue
				}
				pairs++
				old, new := k.mk(a), k.mk(b)
				d, err := Diff(old, new)
				if err != nil {
					fail("%s Diff(%v,%v): %v", k.name, old, new, err)
					continue
				}
				eq, _ := starlark.Equal(old, new)
				if eq != (d == nil) {
					fail("%s Diff(%v,%v): empty=%v but equal=%v", k.name, old, new, d == nil, eq)
					continue
				}
				if d == nil {
					continue
				}
				nontrivial++
				if e, _ := starlark.Equal(d.Old(), old); !e {
					fail("%s Diff(%v,%v).Old() = %v", k.name, old, new, d.Old())
				}
				if e, _ := starlark.Equal(d.New(), new); !e {
					fail("%s Diff(%v,%v).New() = %v", k.name, old, new, d.New())
				}
				sd, ok := d.(*SliceableDiff)
				if !ok {
					fail("%s Diff(%v,%v): %T, want *SliceableDiff", k.name, old, new, d)
					continue
				}
				var gotOld, gotNew []starlark.Value
				bad := false
				for _, ev := range sd.Edits() {
					e := ev.(*Edit)
					switch e.Kind() {
					case EditKindCommon:
						gotOld = append(gotOld, k.elem(e.Sliceable)...)
						gotNew = append(gotNew, k.elem(e.Sliceable)...)
					case EditKindDelete:
						gotOld = append(gotOld, k.elem(e.Sliceable)...)
					case EditKindAdd:
						gotNew = append(gotNew, k.elem(e.Sliceable)...)
					case EditKindReplace:
						for i := 0; i < e.Sliceable.Len(); i++ {
							vd, ok := e.Sliceable.Index(i).(ValueDiff)
							if !ok {
								fail("%s Diff(%v,%v): replace edit holds %v (an element is lost)", k.name, old, new, e.Sliceable.Index(i))
								bad = true
								continue
							}
							if _, isLit := vd.(*LiteralDiff); isLit && (k.name == "string" || k.name == "bytes") {
								gotOld = append(gotOld, k.elem(vd.Old())...)
								gotNew = append(gotNew, k.elem(vd.New())...)
							} else {
								gotOld = append(gotOld, vd.Old())
								gotNew = append(gotNew, vd.New())
							}
						}
					default:
						fail("%s Diff(%v,%v): unknown edit kind %v", k.name, old, new, e.Kind())
					}
				}
				if bad {
					continue
				}
				check := func(side string, got []starlark.Value, want starlark.Value) {
					w := k.elem(want)
					if len(got) != len(w) {
						fail("%s Diff(%v,%v): %s side rebuilt from edits has %d elements, want %d (edits %v)", k.name, old, new, side, len(got), len(w), sd)
						return
					}
					for i := range w {
						if e, _ := starlark.Equal(got[i], w[i]); !e {
							fail("%s Diff(%v,%v): %s side rebuilt from edits differs at %d (edits %v)", k.name, old, new, side, i, sd)
							return
						}
					}
				}
				check("old", gotOld, old)
				check("new", gotNew, new)
				if len(samples) < 5 && nontrivial%997 == 1 {
					samples = append(samples, fmt.Sprintf("%s %v -> %v : %v", k.name, old, new, sd))
				}
			}
		}
	}
	if f := os.Getenv("VERIF_BOUNDED_STATS"); f != "" {
		data, _ := json.Marshal(map[string]interface{}{"evaluations": pairs, "distinct_nontrivial": nontrivial, "failures": failures, "samples": samples,
			"rule": fmt.Sprintf("all ordered pairs of sequences over a 3-letter alphabet up to length %d (tuples) / %d (lists, strings, bytes); non-trivial = unequal pair", bound, bound-1), "exhaustive": true})
		os.WriteFile(f, data, 0o644)
	}
	if failures > 0 {
		t.Fatalf("%d failing pairs out of %d", failures, pairs)
	}
}

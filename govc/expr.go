package main

// Contract expression language: lexer, AST, recursive-descent parser.

import (
	"fmt"
	"strconv"
	"strings"
	"unicode"
)

type tokKind int

const (
	tEOF tokKind = iota
	tIdent
	tInt
	tStr
	tChar
	tOp
)

type ltok struct {
	kind tokKind
	s    string
	pos  int
}

func lex(src string) ([]ltok, error) {
	var toks []ltok
	i := 0
	for i < len(src) {
		c := src[i]
		switch {
		case c == ' ' || c == '\t' || c == '\n' || c == '\r':
			i++
		case unicode.IsLetter(rune(c)) || c == '_' || c == '$' || c == '#':
			j := i + 1
			for j < len(src) && (unicode.IsLetter(rune(src[j])) || unicode.IsDigit(rune(src[j])) || src[j] == '_' || src[j] == '$' || src[j] == '#') {
				j++
			}
			toks = append(toks, ltok{tIdent, src[i:j], i})
			i = j
		case c >= '0' && c <= '9':
			j := i + 1
			for j < len(src) && (src[j] >= '0' && src[j] <= '9' || src[j] == 'x' || src[j] >= 'a' && src[j] <= 'f' || src[j] >= 'A' && src[j] <= 'F') {
				j++
			}
			toks = append(toks, ltok{tInt, src[i:j], i})
			i = j
		case c == '"':
			j := i + 1
			for j < len(src) && src[j] != '"' {
				if src[j] == '\\' {
					j++
				}
				j++
			}
			if j >= len(src) {
				return nil, fmt.Errorf("unterminated string at %d", i)
			}
			s, err := strconv.Unquote(src[i : j+1])
			if err != nil {
				return nil, fmt.Errorf("bad string %s: %v", src[i:j+1], err)
			}
			toks = append(toks, ltok{tStr, s, i})
			i = j + 1
		case c == '\'':
			j := i + 1
			for j < len(src) && src[j] != '\'' {
				if src[j] == '\\' {
					j++
				}
				j++
			}
			if j >= len(src) {
				return nil, fmt.Errorf("unterminated char at %d", i)
			}
			r, _, _, err := strconv.UnquoteChar(src[i+1:j], '\'')
			if err != nil {
				return nil, fmt.Errorf("bad char %s: %v", src[i:j+1], err)
			}
			toks = append(toks, ltok{tChar, strconv.Itoa(int(r)), i})
			i = j + 1
		default:
			ops := []string{"==>", "<==>", "::", "==", "!=", "<=", ">=", "&&", "||", "<<", ">>", "&^", ".("}
			matched := false
			for _, op := range ops {
				if strings.HasPrefix(src[i:], op) {
					toks = append(toks, ltok{tOp, op, i})
					i += len(op)
					matched = true
					break
				}
			}
			if !matched {
				toks = append(toks, ltok{tOp, string(c), i})
				i++
			}
		}
	}
	toks = append(toks, ltok{tEOF, "", len(src)})
	return toks, nil
}

// Expr AST
type Expr interface{ String() string }

type (
	EInt   struct{ V string } // decimal
	EStr   struct{ V string }
	EBool  struct{ V bool }
	ENil   struct{}
	EIdent struct{ Name string }
	EOld   struct{ X Expr }
	EUn    struct {
		Op string
		X  Expr
	}
	EBin struct {
		Op   string
		X, Y Expr
	}
	EField struct {
		X    Expr
		Name string
	}
	EIndex struct{ X, I Expr }
	ESlice struct{ X, Lo, Hi Expr }
	ECall  struct {
		Fn   string
		Args []Expr
	}
	EAssert struct {
		X   Expr
		Typ string
	}
	EQuant struct {
		Forall bool
		Vars   [][2]string // name, sort
		Body   Expr
	}
	EIte struct{ C, A, B Expr }
)

func (e *EInt) String() string   { return e.V }
func (e *EStr) String() string   { return strconv.Quote(e.V) }
func (e *EBool) String() string  { return fmt.Sprint(e.V) }
func (e *ENil) String() string   { return "nil" }
func (e *EIdent) String() string { return e.Name }
func (e *EOld) String() string   { return "old(" + e.X.String() + ")" }
func (e *EUn) String() string    { return e.Op + e.X.String() }
func (e *EBin) String() string   { return "(" + e.X.String() + " " + e.Op + " " + e.Y.String() + ")" }
func (e *EField) String() string { return e.X.String() + "." + e.Name }
func (e *EIndex) String() string { return e.X.String() + "[" + e.I.String() + "]" }
func (e *ESlice) String() string { return e.X.String() + "[:]" }
func (e *ECall) String() string {
	var a []string
	for _, x := range e.Args {
		a = append(a, x.String())
	}
	return e.Fn + "(" + strings.Join(a, ", ") + ")"
}
func (e *EAssert) String() string { return e.X.String() + ".(" + e.Typ + ")" }
func (e *EQuant) String() string  { return "forall ... :: " + e.Body.String() }
func (e *EIte) String() string    { return "ite(...)" }

type parser struct {
	toks []ltok
	p    int
	src  string
}

func ParseExpr(src string) (e Expr, err error) {
	toks, err := lex(src)
	if err != nil {
		return nil, err
	}
	ps := &parser{toks: toks, src: src}
	defer func() {
		if r := recover(); r != nil {
			if pe, ok := r.(parseErr); ok {
				err = fmt.Errorf("%s in %q", string(pe), src)
				return
			}
			panic(r)
		}
	}()
	e = ps.expr()
	if ps.peek().kind != tEOF {
		ps.fail("unexpected %q", ps.peek().s)
	}
	return e, nil
}

type parseErr string

func (ps *parser) fail(f string, a ...interface{}) {
	panic(parseErr(fmt.Sprintf(f, a...) + fmt.Sprintf(" at %d", ps.peek().pos)))
}
func (ps *parser) peek() ltok { return ps.toks[ps.p] }
func (ps *parser) next() ltok { t := ps.toks[ps.p]; ps.p++; return t }
func (ps *parser) isOp(s string) bool {
	t := ps.peek()
	return t.kind == tOp && t.s == s
}
func (ps *parser) accept(s string) bool {
	if ps.isOp(s) {
		ps.p++
		return true
	}
	return false
}
func (ps *parser) expect(s string) {
	if !ps.accept(s) {
		ps.fail("expected %q, got %q", s, ps.peek().s)
	}
}

func (ps *parser) expr() Expr {
	t := ps.peek()
	if t.kind == tIdent && (t.s == "forall" || t.s == "exists") {
		ps.next()
		q := &EQuant{Forall: t.s == "forall"}
		for {
			n := ps.next()
			if n.kind != tIdent {
				ps.fail("expected bound variable")
			}
			ps.expect(":")
			s := ps.sortName()
			q.Vars = append(q.Vars, [2]string{n.s, s})
			if !ps.accept(",") {
				break
			}
		}
		ps.expect("::")
		q.Body = ps.expr()
		return q
	}
	return ps.iff()
}

// sortName parses a sort/type name up to '::' or ','.
func (ps *parser) sortName() string {
	var b strings.Builder
	for {
		t := ps.peek()
		if t.kind == tEOF || (t.kind == tOp && (t.s == "::" || t.s == ",")) {
			break
		}
		b.WriteString(t.s)
		ps.next()
	}
	return b.String()
}

func (ps *parser) iff() Expr {
	x := ps.implies()
	for ps.accept("<==>") {
		y := ps.implies()
		x = &EBin{"<==>", x, y}
	}
	return x
}

func (ps *parser) implies() Expr {
	x := ps.or()
	if ps.accept("==>") {
		y := ps.implies()
		return &EBin{"==>", x, y}
	}
	return x
}
func (ps *parser) or() Expr {
	x := ps.and()
	for ps.accept("||") {
		x = &EBin{"||", x, ps.and()}
	}
	return x
}
func (ps *parser) and() Expr {
	x := ps.cmp()
	for ps.accept("&&") {
		x = &EBin{"&&", x, ps.cmp()}
	}
	return x
}
func (ps *parser) cmp() Expr {
	x := ps.add()
	for _, op := range []string{"==", "!=", "<=", ">=", "<", ">"} {
		if ps.accept(op) {
			return &EBin{op, x, ps.add()}
		}
	}
	return x
}
func (ps *parser) add() Expr {
	x := ps.mul()
	for {
		switch {
		case ps.accept("+"):
			x = &EBin{"+", x, ps.mul()}
		case ps.accept("-"):
			x = &EBin{"-", x, ps.mul()}
		case ps.accept("|"):
			x = &EBin{"|", x, ps.mul()}
		case ps.accept("^"):
			x = &EBin{"^", x, ps.mul()}
		default:
			return x
		}
	}
}
func (ps *parser) mul() Expr {
	x := ps.unary()
	for {
		switch {
		case ps.accept("*"):
			x = &EBin{"*", x, ps.unary()}
		case ps.accept("/"):
			x = &EBin{"/", x, ps.unary()}
		case ps.accept("%"):
			x = &EBin{"%", x, ps.unary()}
		case ps.accept("<<"):
			x = &EBin{"<<", x, ps.unary()}
		case ps.accept(">>"):
			x = &EBin{">>", x, ps.unary()}
		case ps.accept("&"):
			x = &EBin{"&", x, ps.unary()}
		default:
			return x
		}
	}
}
func (ps *parser) unary() Expr {
	if ps.accept("!") {
		return &EUn{"!", ps.unary()}
	}
	if ps.accept("-") {
		return &EUn{"-", ps.unary()}
	}
	return ps.postfix()
}

func (ps *parser) postfix() Expr {
	x := ps.primary()
	for {
		switch {
		case ps.accept(".("):
			// type assertion: collect until ')'
			var b strings.Builder
			for !ps.isOp(")") {
				if ps.peek().kind == tEOF {
					ps.fail("unterminated type assertion")
				}
				b.WriteString(ps.next().s)
			}
			ps.expect(")")
			x = &EAssert{x, b.String()}
		case ps.accept("."):
			t := ps.next()
			if t.kind != tIdent && t.kind != tInt {
				ps.fail("expected field name")
			}
			x = &EField{x, t.s}
		case ps.accept("["):
			var lo, hi Expr
			if ps.accept(":") {
				if !ps.isOp("]") {
					hi = ps.expr()
				}
				ps.expect("]")
				x = &ESlice{x, nil, hi}
				continue
			}
			lo = ps.expr()
			if ps.accept(":") {
				if !ps.isOp("]") {
					hi = ps.expr()
				}
				ps.expect("]")
				x = &ESlice{x, lo, hi}
				continue
			}
			ps.expect("]")
			x = &EIndex{x, lo}
		default:
			return x
		}
	}
}

func (ps *parser) primary() Expr {
	t := ps.next()
	switch t.kind {
	case tInt:
		v, err := strconv.ParseInt(t.s, 0, 64)
		if err != nil {
			u, err2 := strconv.ParseUint(t.s, 0, 64)
			if err2 != nil {
				ps.fail("bad int %q", t.s)
			}
			return &EInt{strconv.FormatUint(u, 10)}
		}
		return &EInt{strconv.FormatInt(v, 10)}
	case tChar:
		return &EInt{t.s}
	case tStr:
		return &EStr{t.s}
	case tIdent:
		switch t.s {
		case "true":
			return &EBool{true}
		case "false":
			return &EBool{false}
		case "nil":
			return &ENil{}
		}
		if ps.isOp("(") {
			ps.next()
			var args []Expr
			for !ps.isOp(")") {
				args = append(args, ps.expr())
				if !ps.accept(",") {
					break
				}
			}
			ps.expect(")")
			if t.s == "old" {
				if len(args) != 1 {
					ps.fail("old takes one argument")
				}
				return &EOld{args[0]}
			}
			if t.s == "ite" {
				if len(args) != 3 {
					ps.fail("ite takes three arguments")
				}
				return &EIte{args[0], args[1], args[2]}
			}
			return &ECall{t.s, args}
		}
		return &EIdent{t.s}
	case tOp:
		if t.s == "(" {
			e := ps.expr()
			ps.expect(")")
			return e
		}
	}
	ps.p--
	ps.fail("unexpected token %q", t.s)
	return nil
}

package mvs

// Replay harness for mvs.(*Reqs).Previous#post:none: a downgrade that has to drop a requirement
// (no earlier version of it exists) must terminate.

import (
	"context"
	"fmt"
	"path"
	"testing"
	"time"

	"github.com/pgavlin/mvs"
	"golang.org/x/mod/module"
)

func TestVerifReplayPrevious(t *testing.T) {
	const sandbox = "github.com/pgavlin/sandbox"
	m := func(project string, version int) module.Version {
		return module.Version{Path: path.Join(sandbox, project), Version: fmt.Sprintf("v1.%v.0", version)}
	}
	dialer := testDialer{repos: map[string]*testRepository{sandbox: {
		path: sandbox, defaultRef: "main",
		refs: map[string]string{"main": "1", "b/v1.1.0": "1", "d/v1.2.0": "1", "d/v1.3.0": "2"},
		head: testRevisions([]map[string]*mvsProject{
			{"b": {Version: m("b", 1), Requirements: []module.Version{m("d", 3)}}, "d": {Version: m("d", 2)}},
			{"d": {Version: m("d", 3)}},
		}),
	}}}
	root := &mvsProject{Version: module.Version{}, Requirements: []module.Version{m("b", 1)}}
	reqs := newReqs(root, NewResolver(t.TempDir(), dialer, nil))

	prev, err := reqs.Previous(context.Background(), m("b", 1))
	if err != nil {
		t.Fatal(err)
	}
	if prev.Version != "none" {
		t.Errorf("Previous(b@v1.1.0) with no earlier version = %q, the interface of github.com/pgavlin/mvs requires \"none\"", prev.Version)
	}

	done := make(chan error, 1)
	go func() {
		_, err := mvs.Downgrade(context.Background(), root.Version, reqs, m("d", 2))
		done <- err
	}()
	select {
	case <-done:
	case <-time.After(5 * time.Second):
		t.Fatalf("mvs.Downgrade(d@v1.2.0) did not return within 5s: Previous never reports that no earlier version exists")
	}
}

package dawn

// Replay harness for (*module).wait lock obligations: a waiter that arrives while the module it waits
// for is itself in the middle of loading another module must not block the loader (or itself) forever.

import (
	"sync"
	"testing"
	"time"

	"github.com/pgavlin/dawn/label"
	"go.starlark.net/starlark"
)

func TestVerifReplayModuleWait(t *testing.T) {
	mk := func(name string) *module {
		m := &module{label: &label.Label{Kind: "module", Package: "//", Name: name}}
		m.cond = sync.NewCond(&m.m)
		return m
	}
	h, h2, a := mk("h"), mk("h2"), mk("a")
	h.setLoading(h2) // h is in the middle of loading h2 (acyclic: a -> h -> h2)

	waited := make(chan error, 1)
	go func() {
		_, err := h.wait(a) // package a waits for the shared helper h
		waited <- err
	}()
	time.Sleep(100 * time.Millisecond)

	finished := make(chan struct{})
	go func() {
		h2.done(starlark.StringDict{}, nil)
		h.setLoading(nil) // h's load of h2 returns ...
		h.done(starlark.StringDict{}, nil)
		close(finished)
	}()
	select {
	case <-finished:
	case <-time.After(3 * time.Second):
		t.Fatalf("the loader of h is blocked forever: a waiter holds h's mutex inside wait (acyclic load graph a -> h -> h2)")
	}
	select {
	case err := <-waited:
		if err != nil {
			t.Fatalf("wait on an acyclic graph failed: %v", err)
		}
	case <-time.After(3 * time.Second):
		t.Fatalf("the waiter never returned")
	}
}

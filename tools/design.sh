#!/bin/bash
# Rebuild DESIGN.md section 10 from tools/design_sec10.md.tmpl + generated tables.
python3 - <<'PY'
import subprocess
s=open('/verif/DESIGN.md').read()
i=s.find('\n## 10. As built')
if i>=0: s=s[:i]
sec=open('/verif/tools/design_sec10.md.tmpl').read()
asb=subprocess.check_output(['/verif/tools/asbuilt.py'],text=True)
seed=subprocess.check_output(['/verif/tools/seedtable.py'],text=True)
import glob,re
files=[f for f in subprocess.check_output(['git','-C','/repo','ls-files'],text=True).split() if f.endswith('zz_contracts_verif.go')]
nf=sum(len(re.findall(r'^//@ func ',open('/repo/'+f).read(),re.M)) for f in files)
nh=len([l for l in subprocess.check_output(['git','-C','/repo','log','--format=%s','320adc8..HEAD'],text=True).splitlines() if l.startswith('verif:')])
kl=sum(len(open(f).read().splitlines()) for f in glob.glob('/verif/govc/*.go'))
sec=sec.replace('@@NFILES@@',str(len(files))).replace('@@NFUNCS@@',str(nf)).replace('@@NHOOKS@@',str(nh)).replace('@@NREPLAY@@',str(len(glob.glob('/verif/replay/*_test.go')))).replace('@@KLOC@@','%.1f'%(kl/1000))
sec=sec.replace('@@ASBUILT@@',asb).replace('@@SEEDTABLE@@',seed)
open('/verif/DESIGN.md','w').write(s.rstrip('\n')+'\n'+sec)
PY

package diff

// Replay harness for diff.diffSlice#post:sides: Old()/New() are the arguments in the order given.

import (
	"testing"

	"go.starlark.net/starlark"
)

func TestVerifReplayDiffSides(t *testing.T) {
	mk := func(n int) starlark.Tuple {
		var tup starlark.Tuple
		for i := 0; i < n; i++ {
			tup = append(tup, starlark.MakeInt(i+1))
		}
		return tup
	}
	// the solver's counterexample class: len(old) >= len(new); also check the other orientation
	for _, c := range [][2]int{{3, 1}, {1, 0}, {2, 2}, {1, 3}} {
		old, new := mk(c[0]), append(mk(c[1]), starlark.String("x"))
		d, err := Diff(old, new)
		if err != nil || d == nil {
			t.Fatalf("Diff(%v, %v): %v %v", old, new, d, err)
		}
		if eq, _ := starlark.Equal(d.Old(), old); !eq {
			t.Errorf("Diff(%v, %v).Old() = %v, want the first argument", old, new, d.Old())
		}
		if eq, _ := starlark.Equal(d.New(), new); !eq {
			t.Errorf("Diff(%v, %v).New() = %v, want the second argument", old, new, d.New())
		}
	}
}

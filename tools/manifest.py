#!/usr/bin/env python3
"""Regenerate MANIFEST.json from props.json (claimed properties) and na.json (not applicable / pending)."""
import json, os, subprocess
props = json.load(open('/verif/props.json'))
ids = [json.loads(l)['id'] for l in open('/verif/properties.jsonl')]
na = json.load(open('/verif/na.json')) if os.path.exists('/verif/na.json') else {}
commits = [l.split()[0] for l in subprocess.check_output(['git', '-C', '/repo', 'log', '--format=%H %s', '320adc8..HEAD'], text=True).splitlines() if ' verif:' in l]
checks = []
for pid in ids:
    p = props.get(pid)
    if not p or not p.get('claimed', True):
        continue
    checks.append({
        "property_id": pid,
        "quick_cmd": f"./check {pid} --tier quick",
        "thorough_cmd": f"./check {pid} --tier thorough",
        "evidence_file": f"evidence/{pid}.json",
        "replay_cmd_template": "cat {path}",
        "engine": "govc",
        "technique": p.get("technique", "contract-based deductive verification of the real code: contracts as //@ comments (tag verif), VCs generated from go/ssa, discharged by z3/cvc5"),
        "level_claimed": {"category": "proof", "text": p.get("level_text", p["title"]), "design_ref": f"DESIGN.md §5 {pid}"},
        "level_note": p.get("level_note", "Trusted: govc (VC generator), go/ssa, SMT solvers, assumed dependency contracts listed in the evidence file; undecided parts listed in evidence.coverage.not_decided"),
    })
claimed = {c["property_id"] for c in checks}
m = {
    "version": 1,
    "setup_cmd": "./check build",
    "hooks": {
        "guard": "verif",
        "enable": "contract files zz_contracts_verif.go carry //go:build verif and contain comments only; govc loads /repo with -tags=verif; no executable code is added to /repo",
        "baseline_off_cmd": "cd /repo && GOFLAGS=-mod=mod GOPROXY=off GOSUMDB=off go test -vet=off -count=1 ./...",
        "source_commits": commits,
        "add_only": True,
    },
    "engines": [{"name": "govc", "path": "govc/", "serves_properties": sorted(claimed),
                 "kind_free_text": "verification-condition generator over go/ssa for contracts kept as //@ comments in /repo (tag verif); obligations discharged by z3-new / cvc5 / z3; bounded stand-ins and replays run the real code through go test -overlay"}],
    "checks": checks,
    "not_applicable": [{"property_id": i, "reason": na.get(i, "not yet built (contracts pending); see DESIGN.md §5")} for i in ids if i not in claimed],
    "notes": "See DESIGN.md. Known findings / repaired defects: known_findings.txt. Seeded changes: seeded/*/meta.json.",
}
json.dump(m, open('/verif/MANIFEST.json', 'w'), indent=1)
print("claimed:", sorted(claimed))

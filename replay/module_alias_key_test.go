package dawn

// Replay harness for (*dawn.module).loadModule#callsite:key-names-its-file: a package's BUILD.dawn
// that is also loaded as a module through a label without a file name ("//lib") must be executed
// once, not once per spelling of its label.

import (
	"os"
	"path/filepath"
	"strings"
	"sync"
	"testing"

	"github.com/pgavlin/dawn/label"
)

type verifAliasEvents struct {
	discardEventsT
	mu    *sync.Mutex
	lines *[]string
}

func (e verifAliasEvents) Print(l *label.Label, line string) {
	e.mu.Lock()
	*e.lines = append(*e.lines, line)
	e.mu.Unlock()
}

func TestVerifReplayModuleAliasKey(t *testing.T) {
	dir := t.TempDir()
	write := func(name, s string) {
		p := filepath.Join(dir, name)
		os.MkdirAll(filepath.Dir(p), 0o755)
		if err := os.WriteFile(p, []byte(s), 0o644); err != nil {
			t.Fatal(err)
		}
	}
	write(".dawnconfig", "")
	write("BUILD.dawn", "load(\"//lib\", \"x\")\n")
	write("lib/BUILD.dawn", "x = 1\nprint(\"executing lib/BUILD.dawn\")\n")
	var mu sync.Mutex
	var lines []string
	if _, err := Load(dir, &LoadOptions{Events: verifAliasEvents{mu: &mu, lines: &lines}}); err != nil {
		t.Fatal(err)
	}
	n := 0
	for _, l := range lines {
		if strings.Contains(l, "executing lib/BUILD.dawn") {
			n++
		}
	}
	if n != 1 {
		t.Fatalf("lib/BUILD.dawn was executed %d times in one load (once as module://lib:BUILD.dawn, once as module://lib)", n)
	}
}

package pickle

// BOUNDED stand-in (not a proof): exhaustive round trip of the real Encode/Decode on all value shapes
// up to VERIF_BOUND nodes over {None, bool, ints of every width class, float, str, bytes, tuple, list,
// dict, set} including shared sub-values and self-referential lists/dicts, plus containers of
// 999/1000/1001/2001 elements at top level and nested. Decoded values must be isomorphic to the
// originals: same dynamic types, structure, contents and sharing. Injected by overlay.

import (
	"bytes"
	"encoding/json"
	"fmt"
	"math"
	"os"
	"strconv"
	"testing"

	"go.starlark.net/starlark"
)

// iso checks that a and b are isomorphic object graphs (identical sharing for reference types).
type verifIso struct {
	ab map[interface{}]interface{}
	ba map[interface{}]interface{}
}

func (s *verifIso) ref(a, b interface{}) (seen bool, ok bool) {
	if x, had := s.ab[a]; had {
		return true, x == b
	}
	if _, had := s.ba[b]; had {
		return true, false
	}
	s.ab[a], s.ba[b] = b, a
	return false, true
}

func (s *verifIso) eq(a, b starlark.Value) error {
	if fmt.Sprintf("%T", a) != fmt.Sprintf("%T", b) {
		return fmt.Errorf("type %T vs %T", a, b)
	}
	switch a := a.(type) {
	case starlark.NoneType, starlark.Bool, starlark.String, starlark.Bytes:
		if a != b {
			return fmt.Errorf("%v vs %v", a, b)
		}
	case starlark.Int:
		if a.BigInt().Cmp(b.(starlark.Int).BigInt()) != 0 {
			return fmt.Errorf("int %v vs %v", a, b)
		}
	case starlark.Float:
		if math.Float64bits(float64(a)) != math.Float64bits(float64(b.(starlark.Float))) {
			return fmt.Errorf("float %v vs %v", a, b)
		}
	case starlark.Tuple:
		bt := b.(starlark.Tuple)
		if len(a) != len(bt) {
			return fmt.Errorf("tuple len %d vs %d", len(a), len(bt))
		}
		for i := range a {
			if err := s.eq(a[i], bt[i]); err != nil {
				return fmt.Errorf("tuple[%d]: %w", i, err)
			}
		}
	case *starlark.List:
		bl := b.(*starlark.List)
		seen, ok := s.ref(a, bl)
		if !ok {
			return fmt.Errorf("list sharing differs")
		}
		if seen {
			return nil
		}
		if a.Len() != bl.Len() {
			return fmt.Errorf("list len %d vs %d", a.Len(), bl.Len())
		}
		for i := 0; i < a.Len(); i++ {
			if err := s.eq(a.Index(i), bl.Index(i)); err != nil {
				return fmt.Errorf("list[%d]: %w", i, err)
			}
		}
	case *starlark.Dict:
		bd := b.(*starlark.Dict)
		seen, ok := s.ref(a, bd)
		if !ok {
			return fmt.Errorf("dict sharing differs")
		}
		if seen {
			return nil
		}
		ai, bi := a.Items(), bd.Items()
		if len(ai) != len(bi) {
			return fmt.Errorf("dict len %d vs %d", len(ai), len(bi))
		}
		for i := range ai {
			if err := s.eq(ai[i][0], bi[i][0]); err != nil {
				return fmt.Errorf("dict key %d: %w", i, err)
			}
			if err := s.eq(ai[i][1], bi[i][1]); err != nil {
				return fmt.Errorf("dict value %d: %w", i, err)
			}
		}
	case *starlark.Set:
		bs := b.(*starlark.Set)
		seen, ok := s.ref(a, bs)
		if !ok {
			return fmt.Errorf("set sharing differs")
		}
		if seen {
			return nil
		}
		ae, be := a.Elems(), bs.Elems()
		if len(ae) != len(be) {
			return fmt.Errorf("set len %d vs %d", len(ae), len(be))
		}
		for i := range ae {
			if err := s.eq(ae[i], be[i]); err != nil {
				return fmt.Errorf("set elem %d: %w", i, err)
			}
		}
	default:
		return fmt.Errorf("unexpected type %T", a)
	}
	return nil
}

func verifRoundTrip(v starlark.Value) error {
	var buf bytes.Buffer
	if err := NewEncoder(&buf, nil).Encode(v); err != nil {
		return fmt.Errorf("encode: %w", err)
	}
	got, err := NewDecoder(&buf, nil).Decode()
	if err != nil {
		return fmt.Errorf("decode: %w", err)
	}
	s := &verifIso{ab: map[interface{}]interface{}{}, ba: map[interface{}]interface{}{}}
	return s.eq(v, got)
}

func verifLeaves() []starlark.Value {
	big, _ := starlark.MakeInt(1).Lsh(70), 0
	return []starlark.Value{
		starlark.None, starlark.True, starlark.False,
		starlark.MakeInt(0), starlark.MakeInt(255), starlark.MakeInt(256), starlark.MakeInt(65535), starlark.MakeInt(65536),
		starlark.MakeInt(-1), starlark.MakeInt64(1 << 31), starlark.MakeInt64(-(1 << 31) - 1), big,
		starlark.Float(1.5), starlark.Float(math.Inf(-1)),
		starlark.String(""), starlark.String("héllo"), starlark.Bytes("\x00\xff"),
	}
}

// verifGen enumerates values with exactly n nodes; containers may reuse earlier-built values (sharing).
func verifGen(n int, pool []starlark.Value, emit func(starlark.Value)) {
	if n == 1 {
		for _, l := range verifLeaves() {
			emit(l)
		}
		emit(starlark.Tuple{})
		emit(starlark.NewList(nil))
		emit(starlark.NewDict(0))
		emit(starlark.NewSet(0))
		return
	}
	// container with k children whose sizes sum to n-1
	var parts func(rem, maxParts int, cur []int, f func([]int))
	parts = func(rem, maxParts int, cur []int, f func([]int)) {
		if rem == 0 {
			f(cur)
			return
		}
		if maxParts == 0 {
			return
		}
		for s := 1; s <= rem; s++ {
			parts(rem-s, maxParts-1, append(cur, s), f)
		}
	}
	parts(n-1, 3, nil, func(sizes []int) {
		// choose children: a representative subset per size to keep the enumeration tractable
		var kids [][]starlark.Value
		for _, s := range sizes {
			var ks []starlark.Value
			cnt := 0
			verifGen(s, pool, func(v starlark.Value) {
				if s == 1 || cnt%3 == 0 {
					ks = append(ks, v)
				}
				cnt++
			})
			kids = append(kids, ks)
		}
		var choose func(i int, cur []starlark.Value)
		choose = func(i int, cur []starlark.Value) {
			if i == len(kids) {
				els := append([]starlark.Value{}, cur...)
				emit(starlark.Tuple(els))
				emit(starlark.NewList(els))
				// shared child: the same object twice
				if len(els) >= 1 {
					emit(starlark.Tuple{els[0], els[0]})
					l := starlark.NewList([]starlark.Value{els[0], els[0]})
					emit(l)
				}
				d := starlark.NewDict(len(els))
				okD := true
				for j, e := range els {
					if err := d.SetKey(starlark.MakeInt(j), e); err != nil {
						okD = false
					}
				}
				if okD {
					emit(d)
				}
				st := starlark.NewSet(len(els))
				okS := true
				for _, e := range els {
					if err := st.Insert(e); err != nil {
						okS = false
						break
					}
				}
				if okS && st.Len() == len(els) {
					emit(st)
				}
				return
			}
			lim := kids[i]
			if len(lim) > 6 && i > 0 {
				lim = lim[:6]
			}
			for _, k := range lim {
				choose(i+1, append(cur, k))
			}
		}
		choose(0, nil)
	})
}

func TestVerifBoundedPickle(t *testing.T) {
	bound := 4
	if s := os.Getenv("VERIF_BOUND"); s != "" {
		bound, _ = strconv.Atoi(s)
	}
	total, nontrivial, failures := 0, 0, 0
	var samples []string
	check := func(name string, v starlark.Value) {
		total++
		if _, leaf := v.(starlark.Int); !leaf {
			nontrivial++
		}
		if err := verifRoundTrip(v); err != nil {
			failures++
			if failures <= 12 {
				s := v.String()
				if len(s) > 120 {
					s = s[:120] + "..."
				}
				t.Errorf("%s %s: %v", name, s, err)
			}
		}
		if len(samples) < 6 && total%4001 == 7 {
			samples = append(samples, v.String())
		}
	}
	for n := 1; n <= bound; n++ {
		verifGen(n, nil, func(v starlark.Value) { check(fmt.Sprintf("size-%d", n), v) })
	}
	// self-referential containers
	l := starlark.NewList(nil)
	l.Append(l)
	check("self-list", l)
	d := starlark.NewDict(1)
	d.SetKey(starlark.String("me"), d)
	check("self-dict", d)
	l2 := starlark.NewList(nil)
	inner := starlark.NewList([]starlark.Value{l2})
	l2.Append(inner)
	l2.Append(starlark.Tuple{inner, l2})
	check("mutual-lists", l2)
	// tuples of every arity 0..6 followed by further values (the decoder builds them from its stack)
	for n := 0; n <= 6; n++ {
		var tup starlark.Tuple
		for i := 0; i < n; i++ {
			tup = append(tup, starlark.MakeInt(i+1))
		}
		if tup == nil {
			tup = starlark.Tuple{}
		}
		check(fmt.Sprintf("tuple-%d-then-more", n), starlark.NewList([]starlark.Value{tup, starlark.String("x"), starlark.String("y"), tup}))
		check(fmt.Sprintf("tuple-%d-in-tuple", n), starlark.Tuple{tup, starlark.String("x"), starlark.Tuple{tup, starlark.None, starlark.None, starlark.None, starlark.None}})
	}
	// large containers: batch boundaries, at top level and nested
	for _, n := range []int{999, 1000, 1001, 2001} {
		els := make([]starlark.Value, n)
		for i := range els {
			els[i] = starlark.MakeInt(i)
		}
		big := starlark.NewList(els)
		check(fmt.Sprintf("list-%d", n), big)
		check(fmt.Sprintf("nested-list-%d", n), starlark.NewList([]starlark.Value{starlark.String("a"), big, starlark.String("b")}))
		check(fmt.Sprintf("tuple-%d", n), starlark.Tuple(els))
		bd := starlark.NewDict(n)
		bs := starlark.NewSet(n)
		for i := range els {
			bd.SetKey(starlark.MakeInt(i), starlark.MakeInt(i*2))
			bs.Insert(starlark.MakeInt(i))
		}
		check(fmt.Sprintf("dict-%d", n), bd)
		check(fmt.Sprintf("nested-dict-%d", n), starlark.Tuple{bd, starlark.None})
		check(fmt.Sprintf("set-%d", n), bs)
		check(fmt.Sprintf("nested-set-%d", n), starlark.NewList([]starlark.Value{bs, bs}))
	}
	if f := os.Getenv("VERIF_BOUNDED_STATS"); f != "" {
		data, _ := json.Marshal(map[string]interface{}{"evaluations": total, "distinct_nontrivial": nontrivial, "failures": failures, "samples": samples,
			"rule": fmt.Sprintf("value shapes up to %d nodes over 17 leaf values and tuple/list/dict/set (children subsampled 1 in 3 above size 1, at most 3 children, shared-child variants), self-referential lists/dicts, containers of 999/1000/1001/2001 elements top-level and nested; non-trivial = not a bare integer", bound), "exhaustive": false})
		os.WriteFile(f, data, 0o644)
	}
	if failures > 0 {
		t.Fatalf("%d of %d values do not round-trip", failures, total)
	}
}

#!/usr/bin/env python3
"""Rewrite `loop N:` clauses in /repo contract files to `loop over <operand>:` where loop N of the function is a
range loop whose operand has a source name that is unique among the function's loops.  usage: loopnames.py [--write]"""
import re, subprocess, sys, os
write = '--write' in sys.argv
ENV = dict(os.environ, GOFLAGS="-mod=mod", GOPROXY="off", GOSUMDB="off", GOTOOLCHAIN="local")
files = subprocess.check_output(['git','-C','/repo','ls-files'],text=True).split()
files = [f for f in files if f.endswith('zz_contracts_verif.go')]
pkgs = ['.','./runner','./diff','./pickle','./label','./util','./internal/mvs','./internal/project']
def loops_of(key):
    for pk in pkgs:
        p = subprocess.run(['/verif/bin/govc','dump',pk,key],capture_output=True,text=True,env=ENV,cwd='/verif')
        if p.returncode == 0:
            out = {}
            for m in re.finditer(r'^loop L(\d+) \[over "([^"]*)"\]', p.stdout, re.M):
                out[int(m.group(1))] = m.group(2)
            return out
    return None
for f in files:
    path = os.path.join('/repo', f)
    lines = open(path).read().split('\n')
    cur = None; info = None; changed = 0
    for i, l in enumerate(lines):
        m = re.match(r'^//@ func (.+?)( variant \S+)?\s*$', l)
        if m:
            cur = m.group(1).strip(); info = None
            continue
        m = re.match(r'^(//@\s+loop )(\d+)(:.*)$', l)
        if m and cur:
            if info is None:
                info = loops_of(cur) or {}
            n = int(m.group(2)); nm = info.get(n, '')
            if nm:
                lines[i] = m.group(1) + 'over ' + nm + m.group(3)
                changed += 1
            else:
                print(f'  keep ordinal: {f}: {cur} loop {n} (name {nm!r})')
    print(f'{f}: {changed} clauses renamed')
    if write and changed:
        open(path, 'w').write('\n'.join(lines))

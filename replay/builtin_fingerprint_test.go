package dawn

import (
	"testing"

	"go.starlark.net/starlark"
)

// Replay harness for dawn.envPickler#post:builtin-identified: a global bound to a different builtin changes the fingerprint.
func TestVerifReplayBuiltinFingerprint(t *testing.T) {
	env := func(src string) starlark.Value {
		th := &starlark.Thread{}
		g, err := starlark.ExecFile(th, "x.star", src, nil)
		if err != nil {
			t.Fatal(err)
		}
		e, err := functionEnv(g["target"].(*starlark.Function))
		if err != nil {
			t.Fatal(err)
		}
		return e
	}
	a := env("f = len\ndef target():\n    return f([1])\n")
	b := env("f = str\ndef target():\n    return f([1])\n")
	eq, err := starlark.EqualDepth(a, b, 1000)
	t.Logf("equal=%v err=%v", eq, err)
	if eq {
		t.Fatalf("global f = len and global f = str give equal fingerprints")
	}
}

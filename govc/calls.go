package main

// Calls: builtins, contracts at call sites, defers, go statements, frames.

import (
	"fmt"
	"go/token"
	"go/types"
	"math/big"
	"sort"
	"strconv"
	"strings"

	"golang.org/x/tools/go/ssa"
)

var bigZero = big.NewInt(0)

type calleeInfo struct {
	key     string
	fn      *ssa.Function     // may be nil (interface method / dynamic)
	sig     *types.Signature
	args    []ssa.Value       // includes receiver first, and closure bindings (as free vars) separately
	recv    ssa.Value
	closure *ssa.MakeClosure
	dynamic bool
}

func (e *Enc) resolveCallee(c *ssa.CallCommon) *calleeInfo {
	ci := &calleeInfo{sig: c.Signature()}
	if c.IsInvoke() {
		ci.key = ifaceMethodKey(c.Value.Type(), c.Method)
		ci.recv = c.Value
		ci.args = append([]ssa.Value{c.Value}, c.Args...)
		return ci
	}
	switch v := c.Value.(type) {
	case *ssa.Function:
		ci.fn = v
		ci.key = fnKey(v)
		ci.args = c.Args
		if v.Signature.Recv() != nil && len(c.Args) > 0 {
			ci.recv = c.Args[0]
		}
	case *ssa.MakeClosure:
		ci.fn = v.Fn.(*ssa.Function)
		ci.key = fnKey(ci.fn)
		ci.args = c.Args
		ci.closure = v
	case *ssa.Builtin:
		ci.key = "builtin." + v.Name()
		ci.args = c.Args
	default:
		// dynamic call through a function value; if it was loaded from a local holding a closure we cannot see it
		ci.key = "dynamic:" + typeStr(c.Value.Type())
		ci.args = c.Args
		ci.dynamic = true
		if mc, ok := e.closures[c.Value]; ok {
			ci.fn = mc.Fn.(*ssa.Function)
			ci.key = fnKey(ci.fn)
			ci.closure = mc
			ci.dynamic = false
		}
	}
	return ci
}

func shortCallee(key string) string {
	// last component after the final '.' including receiver-less name
	if i := strings.LastIndex(key, "."); i >= 0 {
		return key[i+1:]
	}
	return key
}

// encCall encodes a call. v may be nil for calls whose value is unused (defer/go).
func (e *Enc) encCall(v ssa.Value, c *ssa.CallCommon, st *State, guard string, deferred bool) {
	ci := e.resolveCallee(c)
	var pos token.Pos = c.Pos()
	if strings.HasPrefix(ci.key, "builtin.") {
		e.encBuiltin(v, c, ci, st, guard)
		return
	}
	if e.encLockOp(v, c, ci, st, guard, pos) {
		return
	}
	// callsite assertions of the enclosing function's contract
	if e.fc != nil {
		for _, cc := range e.fc.Callsites {
			callee, want := cc.Callee, -1
			if k := strings.LastIndex(callee, "@"); k > 0 {
				if nn, err := strconv.Atoi(callee[k+1:]); err == nil {
					callee, want = callee[:k], nn
				}
			}
			if want >= 0 && want != e.callCount["site:"+ci.key] {
				continue
			}
			if callee == ci.key || callee == shortCallee(ci.key) {
				ctx := e.ctxAt(st, e.curBlock, e.curIdx)
				for i, a := range ci.args {
					ctx.bind[fmt.Sprintf("$%d", i)] = TV{T: e.term(a), Typ: a.Type(), Sort: e.st.sortOf(a.Type())}
				}
				nm := cc.C.Name
				if nm == "" {
					nm = shortCallee(ci.key)
				}
				n := e.callCount["cs:"+nm]
				e.callCount["cs:"+nm] = n + 1
				goal, src := e.goalOf(ctx, cc.C)
				e.oblige("callsite", fmt.Sprintf("%s@%d", nm, n), nm, guard, goal, pos, src)
			}
		}
	}
	variant := ""
	if e.fc != nil {
		variant = e.fc.Variant
		if v, ok := e.fc.Uses[ci.key]; ok {
			variant = v
		}
	}
	e.callCount["site:"+ci.key]++
	fc := e.w.callContractFor(ci.key, e.mode.String(), variant)
	n := e.callCount[ci.key]
	e.callCount[ci.key] = n + 1
	if fc == nil {
		// unknown callee: havoc heap (unless result-only builtin-like), unconstrained result
		e.havocStableWrittenBy(ci, st, guard)
		e.havocHeapGuarded(st, guard, "call to "+ci.key+" (no contract)")
		e.growAlloc(st)
		if ci.dynamic || (ci.fn != nil && inRepo(ci.fn) && e.w.mayHaveGhostEffects(ci.fn, map[*ssa.Function]bool{})) {
			// repository code without a contract may perform any ghost-observable effect
			e.note("havoc-all-ghost: call to " + ci.key + " (repository code without contract)")
			for _, k := range e.keyOrder {
				if strings.HasPrefix(k, "G:") {
					old := e.get(st, k, e.keySort[k])
					n := e.havocKey(st, k)
					if guard != "true" {
						e.assume(fmt.Sprintf("(=> (not %s) (= %s %s))", guard, n, old))
					}
				}
			}
		}
		if v != nil {
			e.callResultHavoc(v, st)
		}
		return
	}
	fc.Used = true
	if fc.Assumed || fc.Trusted {
		e.usedSpecs[ci.key] = true
	}
	e.applyContract(v, ci, fc, st, guard, pos, n, "pre")
}

func (e *Enc) callResultHavoc(v ssa.Value, st *State) {
	if tup, ok := v.Type().(*types.Tuple); ok {
		var ts []string
		for i := 0; i < tup.Len(); i++ {
			c := e.freshConst(fmt.Sprintf("r.%s.%d", v.Name(), i), e.st.sortOf(tup.At(i).Type()))
			e.assumeWFg(c, tup.At(i).Type(), st, "true")
			ts = append(ts, c)
		}
		e.tup[v] = ts
		return
	}
	e.havocVal(v, st, "")
}

func (e *Enc) havocHeapGuarded(st *State, guard, why string) {
	e.note("havoc-all-heap: " + why)
	before := st.clone()
	defer func() {
		e.relyAll(before, st, guard)
		e.keepLocals(before, st)
	}()
	for _, k := range e.keyOrder {
		if e.isHeapKey(k) {
			e.recordWrite(k, nil)
			old := e.get(st, k, e.keySort[k])
			n := e.fresh(k)
			e.declare(n, e.keySort[k])
			e.keyInvariant(k, n)
			if guard != "true" {
				e.assume(fmt.Sprintf("(=> (not %s) (= %s %s))", guard, n, old))
			}
			st.m[k] = n
		}
	}
}

// havocStableWrittenBy: a `stable` field survives calls - except calls to (or statically reaching) one
// of its declared writers, after which nothing is known about it but what the callee's contract says.
func (e *Enc) havocStableWrittenBy(ci *calleeInfo, st *State, guard string) {
	if ci.fn == nil {
		return
	}
	for _, k := range e.keyOrder {
		if !strings.HasPrefix(k, "F:") || !e.isStableKey(k) || !e.w.mayWriteStable(ci.fn, k) {
			continue
		}
		e.recordWrite(k, nil)
		old := e.get(st, k, e.keySort[k])
		n := e.fresh(k)
		e.declare(n, e.keySort[k])
		e.keyInvariant(k, n)
		if guard != "true" {
			e.assume(fmt.Sprintf("(=> (not %s) (= %s %s))", guard, n, old))
		}
		st.m[k] = n
	}
}

// bindCallee builds the name bindings for a callee contract.
func (e *Enc) bindCallee(ci *calleeInfo, ctx *evalCtx) {
	bindArg := func(name string, a ssa.Value) {
		tv := TV{T: e.term(a), Typ: a.Type(), Sort: e.st.sortOf(a.Type())}
		if name != "" && name != "_" {
			ctx.bind[name] = tv
		}
	}
	for i, a := range ci.args {
		ctx.bind[fmt.Sprintf("$%d", i)] = TV{T: e.term(a), Typ: a.Type(), Sort: e.st.sortOf(a.Type())}
	}
	// a receiver that is the address of a field (&x.f): `owner` names x
	if len(ci.args) > 0 {
		if l, ok := e.lv[ci.args[0]]; ok && !l.elems && len(l.path) >= 1 && !l.path[0].isIdx {
			if _, isS := l.root.Underlying().(*types.Struct); isS {
				ctx.bind["owner"] = TV{T: l.base, Typ: types.NewPointer(l.root), Sort: "Ref"}
				ctx.bind["self"] = TV{T: l.base, Typ: types.NewPointer(l.root), Sort: "Ref"}
				if stt, ok := l.root.Underlying().(*types.Struct); ok && l.path[0].field < stt.NumFields() {
					ctx.bind["slot"] = TV{T: fmt.Sprintf("(fslot %s %d)", l.base, fieldSlotID(l.root, stt.Field(l.path[0].field).Name())), Sort: "Ref"}
				}
			}
		} else if e.st.sortOf(ci.args[0].Type()) == "Ref" {
			ctx.bind["self"] = TV{T: e.term(ci.args[0]), Typ: ci.args[0].Type(), Sort: "Ref"}
		}
	}
	if ci.fn != nil && (len(ci.fn.Params) > 0 || len(ci.fn.FreeVars) > 0 || len(ci.fn.Blocks) > 0) {
		for i, p := range ci.fn.Params {
			if i < len(ci.args) {
				bindArg(p.Name(), ci.args[i])
			}
		}
		if ci.closure != nil {
			for i, fv := range ci.fn.FreeVars {
				if i < len(ci.closure.Bindings) {
					b := ci.closure.Bindings[i]
					if fv.Name() != "" && fv.Name() != "_" {
						ctx.bind[fv.Name()] = TV{T: e.term(b), Typ: b.Type(), Sort: e.st.sortOf(b.Type()), Cell: true}
					}
				}
			}
		}
		return
	}
	// interface method, dynamic call, or a function without a loaded body: names from the signature
	off := 0
	if ci.recv != nil {
		bindArg("this", ci.recv)
		if ci.sig != nil && ci.sig.Recv() != nil {
			bindArg(ci.sig.Recv().Name(), ci.recv)
		}
		off = 1
	} else if ci.fn != nil && ci.fn.Signature.Recv() != nil && len(ci.args) > 0 {
		bindArg("this", ci.args[0])
		bindArg(ci.fn.Signature.Recv().Name(), ci.args[0])
		off = 1
	}
	sig := ci.sig
	if ci.fn != nil {
		sig = ci.fn.Signature
	}
	if sig != nil {
		for i := 0; i < sig.Params().Len(); i++ {
			if i+off < len(ci.args) {
				bindArg(sig.Params().At(i).Name(), ci.args[i+off])
			}
		}
	}
}

func (e *Enc) applyContract(v ssa.Value, ci *calleeInfo, fc *FuncContract, st *State, guard string, pos token.Pos, n int, preKind string) {
	// 1. preconditions
	pre := e.ctxAt(st, e.curBlock, e.curIdx)
	pre.bind = map[string]TV{}
	pre.noLocals = true
	pre.useParams = false
	e.bindCallee(ci, pre)
	for i, c := range fc.Requires {
		nm := c.Name
		if nm == "" {
			nm = fmt.Sprint(i)
		}
		goal := pre.evalBool(c)
		e.oblige(preKind, fmt.Sprintf("%s@%d/%s", shortCallee(ci.key), n, nm), shortCallee(ci.key), guard, goal, pos, c.Src)
		e.assume(fmt.Sprintf("(=> %s %s)", guard, goal))
	}
	oldSt := st.clone()
	// 2. frame
	e.havocStableWrittenBy(ci, st, guard)
	e.applyModifies(fc, pre, st, guard, ci.key)
	e.growAlloc(st)
	// 3. results
	var results []TV
	if ci.sig != nil {
		rs := ci.sig.Results()
		for i := 0; i < rs.Len(); i++ {
			rt := rs.At(i).Type()
			c := e.freshConst(fmt.Sprintf("r.%s.%d", shortCallee(ci.key), i), e.st.sortOf(rt))
			e.assumeWFg(c, rt, st, "true")
			results = append(results, TV{T: c, Typ: rt, Sort: e.st.sortOf(rt)})
		}
	}
	if v != nil {
		if len(results) == 1 {
			e.val[v] = results[0].T
		} else if len(results) > 1 {
			var ts []string
			for _, r := range results {
				ts = append(ts, r.T)
			}
			e.tup[v] = ts
		}
	}
	// 4. postconditions
	post := e.ctxAt(st, e.curBlock, e.curIdx)
	post.bind = map[string]TV{}
	post.noLocals = true
	post.useParams = false
	post.old = oldSt
	e.bindCallee(ci, post)
	e.bindResults(post, ci.sig, results)
	for _, c := range fc.Ensures {
		// a callee postcondition that names one of the callee's locals says nothing to a caller
		e.assume(fmt.Sprintf("(=> %s %s)", guard, e.factOf(post, c)))
	}
}

func (e *Enc) bindResults(ctx *evalCtx, sig *types.Signature, results []TV) {
	if len(results) == 1 {
		ctx.bind["result"] = results[0]
	}
	for i, r := range results {
		ctx.bind[fmt.Sprintf("result.%d", i)] = r
		if sig != nil {
			if nm := sig.Results().At(i).Name(); nm != "" && nm != "_" {
				if _, dup := ctx.bind[nm]; !dup {
					ctx.bind[nm] = r
				}
			}
		}
	}
}

// applyModifies havocs what the callee's modifies clause names.
func (e *Enc) applyModifies(fc *FuncContract, ctx *evalCtx, st *State, guard, why string) {
	for _, d := range fc.Modifies {
		e.havocDesignator(d, ctx, st, guard, why)
	}
}

func (e *Enc) guardedSet(st *State, key string, guard string, newTerm string) {
	old := e.get(st, key, e.keySort[key])
	if guard == "true" {
		e.set(st, key, e.keySort[key], newTerm)
		return
	}
	e.set(st, key, e.keySort[key], fmt.Sprintf("(ite %s %s %s)", guard, newTerm, old))
}

func (e *Enc) havocDesignator(d string, ctx *evalCtx, st *State, guard, why string) {
	d = strings.TrimSpace(d)
	switch {
	case d == "heap":
		e.havocHeapGuarded(st, guard, why+" modifies heap")
		return
	case d == "":
		return
	}
	ex, err := ParseExpr(d)
	if err != nil {
		e.fail("bad modifies designator %q: %v", d, err)
	}
	keys := ctx.designatorKeys(ex)
	if len(keys) == 0 {
		e.fail("modifies designator %q resolves to nothing", d)
	}
	for _, dk := range keys {
		e.regKey(dk.key, dk.sort)
		e.recordWrite(dk.key, nil)
		old := e.get(st, dk.key, dk.sort)
		if dk.index == "" {
			n := e.fresh(dk.key)
			e.declare(n, dk.sort)
			if guard != "true" {
				e.assume(fmt.Sprintf("(=> (not %s) (= %s %s))", guard, n, old))
			}
			st.m[dk.key] = n
		} else {
			fv := e.freshConst("mod", dk.elemSort)
			e.guardedSet(st, dk.key, guard, fmt.Sprintf("(store %s %s %s)", old, dk.index, fv))
			if dk.typ != nil {
				e.assumeWFg(fv, dk.typ, st, "true")
			}
		}
	}
}

// ---------- builtins ----------

func (e *Enc) encBuiltin(v ssa.Value, c *ssa.CallCommon, ci *calleeInfo, st *State, guard string) {
	name := strings.TrimPrefix(ci.key, "builtin.")
	switch name {
	case "len", "cap":
		x := e.term(c.Args[0])
		var t string
		switch xt := c.Args[0].Type().Underlying().(type) {
		case *types.Basic:
			t = fmt.Sprintf("(gs.len %s)", x)
		case *types.Slice:
			if name == "len" {
				t = fmt.Sprintf("(sl.len %s)", x)
			} else {
				t = fmt.Sprintf("(sl.cap %s)", x)
			}
		case *types.Map:
			fnm := q("map.len")
			e.declareRaw(fnm, fmt.Sprintf("(declare-fun %s (Ref Int) %s)", fnm, e.st.idx()))
			t = e.freshConst("maplen", e.st.idx())
			e.assume(fmt.Sprintf("(idx.le idx.zero %s)", t))
			e.note("len(map) is unconstrained (non-negative)")
		case *types.Array:
			t = e.st.idxLit(xt.Len())
		case *types.Pointer:
			t = e.st.idxLit(xt.Elem().Underlying().(*types.Array).Len())
		default:
			t = e.freshConst("len", e.st.idx())
		}
		if v != nil {
			e.setVal(v, t)
		}
	case "append":
		e.encAppend(v, c, st)
	case "copy":
		e.encCopy(v, c, st, guard)
	case "delete":
		mt := c.Args[0].Type().Underlying().(*types.Map)
		m := e.term(c.Args[0])
		dk, ds, _, _ := e.mapKeys(mt)
		d := e.get(st, dk, ds)
		e.recordWrite(dk, &lvalue{base: m, baseVal: c.Args[0]})
		e.guardedSet(st, dk, guard, fmt.Sprintf("(store %s %s (store (select %s %s) %s false))", d, m, d, m, e.term(c.Args[1])))
	case "recover":
		if v != nil {
			e.val[v] = e.recoveredValue()
		}
	case "print", "println":
	case "min", "max":
		if v != nil && len(c.Args) == 2 && isInt(v.Type()) {
			x, y := e.term(c.Args[0]), e.term(c.Args[1])
			lt := e.st.cmpInt(token.LSS, x, y, v.Type())
			if name == "min" {
				e.setVal(v, fmt.Sprintf("(ite %s %s %s)", lt, x, y))
			} else {
				e.setVal(v, fmt.Sprintf("(ite %s %s %s)", lt, y, x))
			}
		} else if v != nil {
			e.havocVal(v, st, "builtin "+name)
		}
	case "ssa:wrapnilchk":
		if v != nil {
			e.val[v] = e.term(c.Args[0])
		}
	default:
		if v != nil {
			e.havocVal(v, st, "builtin "+name)
		}
	}
}

func (e *Enc) recoveredValue() string {
	n := q("g:recovered")
	e.declare(n, "Iface")
	return n
}

func (e *Enc) encAppend(v ssa.Value, c *ssa.CallCommon, st *State) {
	s := e.term(c.Args[0])
	st0 := c.Args[0].Type().Underlying().(*types.Slice)
	elem := st0.Elem()
	k, ks := e.elemsKey(elem)
	all := e.get(st, k, ks)
	r := e.allocRef(st, "append")
	arr := e.freshConst("apparr", fmt.Sprintf("(Array %s %s)", e.st.idx(), e.st.sortOf(elem)))
	idx := e.st.idx()
	// old elements preserved
	e.assume(fmt.Sprintf("(forall ((i %s)) (! (=> (and (idx.le idx.zero i) (idx.lt i (sl.len %s))) (= (select %s i) (select (select %s (sl.arr %s)) (idx.add (sl.off %s) i)))) :pattern ((select %s i))))", idx, s, arr, all, s, s, arr))
	var addLen string
	y := c.Args[1]
	switch yt := y.Type().Underlying().(type) {
	case *types.Slice:
		ys := e.term(y)
		addLen = fmt.Sprintf("(sl.len %s)", ys)
		e.assume(fmt.Sprintf("(forall ((i %s)) (! (=> (and (idx.le idx.zero i) (idx.lt i (sl.len %s))) (= (select %s (idx.add (sl.len %s) i)) (select (select %s (sl.arr %s)) (idx.add (sl.off %s) i)))) :pattern ((select %s (idx.add (sl.len %s) i)))))", idx, ys, arr, s, all, ys, ys, arr, s))
		// common case: appended slice has a syntactically known small length -> ground instances
		if sl, ok := y.(*ssa.Slice); ok {
			if l := e.lvalOf(sl.X); l != nil && l.elems && l.fresh {
				if pt, ok := sl.X.Type().Underlying().(*types.Pointer); ok {
					if at, ok := pt.Elem().Underlying().(*types.Array); ok && at.Len() <= 8 {
						for i := int64(0); i < at.Len(); i++ {
							il := e.st.idxLit(i)
							e.assume(fmt.Sprintf("(=> (idx.lt %s (sl.len %s)) (= (select %s (idx.add (sl.len %s) %s)) (select (select %s (sl.arr %s)) (idx.add (sl.off %s) %s))))", il, ys, arr, s, il, all, ys, ys, il))
						}
					}
				}
			}
		}
	case *types.Basic: // append([]byte, string...)
		ys := e.term(y)
		addLen = fmt.Sprintf("(gs.len %s)", ys)
		e.assume(fmt.Sprintf("(forall ((i %s)) (! (=> (and (idx.le idx.zero i) (idx.lt i (gs.len %s))) (= (select %s (idx.add (sl.len %s) i)) (gs.at %s i))) :pattern ((select %s (idx.add (sl.len %s) i)))))", idx, ys, arr, s, ys, arr, s))
		_ = yt
	default:
		addLen = e.freshConst("applen", idx)
	}
	e.recordFreshWrite(k)
	e.set(st, k, ks, fmt.Sprintf("(store %s %s %s)", all, r, arr))
	nl := fmt.Sprintf("(idx.add (sl.len %s) %s)", s, addLen)
	capc := e.freshConst("appcap", idx)
	e.assume(fmt.Sprintf("(idx.le %s %s)", nl, capc))
	e.note("append modelled as always returning a fresh backing array (no aliasing with the argument)")
	if v != nil {
		e.setVal(v, fmt.Sprintf("(mkslice %s idx.zero %s %s)", r, nl, capc))
	}
}

func (e *Enc) encCopy(v ssa.Value, c *ssa.CallCommon, st *State, guard string) {
	dst := e.term(c.Args[0])
	elem := c.Args[0].Type().Underlying().(*types.Slice).Elem()
	k, ks := e.elemsKey(elem)
	all := e.get(st, k, ks)
	idx := e.st.idx()
	var srcLen string
	var srcAt func(i string) string
	src := e.term(c.Args[1])
	switch c.Args[1].Type().Underlying().(type) {
	case *types.Slice:
		srcLen = fmt.Sprintf("(sl.len %s)", src)
		srcAt = func(i string) string {
			return fmt.Sprintf("(select (select %s (sl.arr %s)) (idx.add (sl.off %s) %s))", all, src, src, i)
		}
	default:
		srcLen = fmt.Sprintf("(gs.len %s)", src)
		srcAt = func(i string) string { return fmt.Sprintf("(gs.at %s %s)", src, i) }
	}
	n := e.freshConst("copyn", idx)
	e.assume(fmt.Sprintf("(= %s (ite (idx.lt (sl.len %s) %s) (sl.len %s) %s))", n, dst, srcLen, dst, srcLen))
	arr := e.freshConst("copyarr", fmt.Sprintf("(Array %s %s)", idx, e.st.sortOf(elem)))
	oldArr := fmt.Sprintf("(select %s (sl.arr %s))", all, dst)
	e.assume(fmt.Sprintf("(forall ((j %s)) (! (= (select %s j) (ite (and (idx.le (sl.off %s) j) (idx.lt j (idx.add (sl.off %s) %s))) %s (select %s j))) :pattern ((select %s j))))",
		idx, arr, dst, dst, n, srcAt(fmt.Sprintf("(idx.sub j (sl.off %s))", dst)), oldArr, arr))
	e.recordWrite(k, nil)
	e.guardedSet(st, k, guard, fmt.Sprintf("(store %s (sl.arr %s) %s)", all, dst, arr))
	if v != nil {
		e.setVal(v, n)
	}
}

// ---------- defers / go ----------

func (e *Enc) encRunDefers(st *State) {
	// run registered defers in reverse registration order, each guarded by the reachability of its Defer.
	for i := len(e.defers) - 1; i >= 0; i-- {
		d := e.defers[i]
		if !d.block.Dominates(e.curBlock) && !e.mayPrecede(d.block, e.curBlock) {
			continue
		}
		g := e.reach[d.block]
		if g == "" {
			continue
		}
		guard := g
		if !d.block.Dominates(e.curBlock) {
			guard = fmt.Sprintf("(and %s %s)", e.guardAt(), g)
		} else {
			guard = e.guardAt()
		}
		for _, li := range e.loopList {
			if li.body[d.block] {
				e.note("defer inside a loop is outside the supported subset")
			}
		}
		e.encCall(nil, d.instr.Common(), st, guard, true)
	}
}

// mayPrecede reports whether block a can execute before block b on some path (forward edges).
func (e *Enc) mayPrecede(a, b *ssa.BasicBlock) bool {
	seen := map[*ssa.BasicBlock]bool{}
	var dfs func(x *ssa.BasicBlock) bool
	dfs = func(x *ssa.BasicBlock) bool {
		if x == b {
			return true
		}
		if seen[x] {
			return false
		}
		seen[x] = true
		for _, s := range x.Succs {
			if isBackEdge(x, s) {
				continue
			}
			if dfs(s) {
				return true
			}
		}
		return false
	}
	return dfs(a)
}

func (e *Enc) encGo(ins *ssa.Go, st *State) {
	c := ins.Common()
	ci := e.resolveCallee(c)
	fc := e.w.callContract(ci.key)
	n := e.callCount["go:"+ci.key]
	e.callCount["go:"+ci.key] = n + 1
	if fc == nil {
		e.note("go statement: callee " + ci.key + " has no contract (spawn unchecked)")
		return
	}
	fc.Used = true
	// the spawned thread starts with thread-local ghosts at their initial values, except consumed ones
	pre := e.ctxAt(st, e.curBlock, e.curIdx)
	pre.bind = map[string]TV{}
	pre.noLocals = true
	pre.useParams = false
	e.bindCallee(ci, pre)
	child := map[string]string{}
	for _, pr := range fc.SpawnChild {
		child[pr[0]] = pr[1]
	}
	spawnSt := st.clone()
	spawnSt.noLocks = true
	for _, gn := range e.w.CS.GhostOrder {
		gv := e.w.CS.Ghosts[gn]
		if !gv.ThreadLocal {
			continue
		}
		src := gv.Init
		if cs, ok := child[gn]; ok {
			src = cs
		}
		if src == "" {
			continue
		}
		ie, err := ParseExpr(src)
		if err != nil {
			e.fail("ghost init: %v", err)
		}
		key := "G:" + gn
		e.regKey(key, e.st.ghostSort(gv.Sort))
		tv := pre.eval(ie)
		spawnSt.m[key] = tv.T
	}
	parentSt := pre.st
	pre.st = spawnSt
	for i, c := range fc.Requires {
		nm := c.Name
		if nm == "" {
			nm = fmt.Sprint(i)
		}
		e.oblige("spawn", fmt.Sprintf("%s@%d/%s", shortCallee(ci.key), n, nm), shortCallee(ci.key), e.guardAt(), pre.evalBool(c), ins.Pos(), c.Src)
	}
	// ghost state handed to the child leaves the parent
	pre.st = parentSt
	for _, pr := range fc.SpawnParent {
		gv := e.w.CS.Ghosts[pr[0]]
		if gv == nil {
			e.fail("spawn_parent: unknown ghost %s", pr[0])
		}
		key := "G:" + pr[0]
		e.regKey(key, e.st.ghostSort(gv.Sort))
		ie, _ := ParseExpr(pr[1])
		e.guardedSet(st, key, e.guardAt(), pre.eval(ie).T)
	}
}

// ---------- frame ----------

// frameObligation: every heap key not covered by the modifies clause is unchanged at return.
func (e *Enc) frameObligation(st *State, guard string, pos token.Pos) {
	if e.fc == nil || e.fc.NoFrame {
		return
	}
	ctx := e.ctxEntry(e.init)
	type cover struct {
		whole bool
		idxs  []string
	}
	cov := map[string]*cover{}
	heapAll := false
	for _, d := range e.fc.Modifies {
		d = strings.TrimSpace(d)
		if d == "heap" {
			heapAll = true
			continue
		}
		ex, err := ParseExpr(d)
		if err != nil {
			continue
		}
		for _, dk := range ctx.designatorKeys(ex) {
			c := cov[dk.key]
			if c == nil {
				c = &cover{}
				cov[dk.key] = c
			}
			if dk.index == "" {
				c.whole = true
			} else {
				c.idxs = append(c.idxs, dk.index)
			}
		}
	}
	if heapAll {
		return
	}
	var goals []string
	keys := append([]string{}, e.keyOrder...)
	sort.Strings(keys)
	alloc0 := e.get(e.init, allocKey, "(Array Ref Bool)")
	for _, k := range keys {
		if !(e.isHeapKey(k) || strings.HasPrefix(k, "G:") || strings.HasPrefix(k, "GF:")) {
			continue
		}
		if e.isProtectedKey(k) {
			continue // a thread's view of lock-protected state is not part of its frame
		}
		fin := e.get(st, k, e.keySort[k])
		ini := e.get(e.init, k, e.keySort[k])
		if fin == ini {
			continue
		}
		c := cov[k]
		if c != nil && c.whole {
			continue
		}
		if strings.HasPrefix(k, "G:") && !strings.HasPrefix(e.keySort[k], "(Array Ref ") {
			goals = append(goals, fmt.Sprintf("(= %s %s)", fin, ini))
			continue
		}
		// array keyed by Ref: unchanged at every object that existed at entry and is not named
		r := "r"
		var excl []string
		if c != nil {
			for _, ix := range c.idxs {
				excl = append(excl, fmt.Sprintf("(not (= %s %s))", r, ix))
			}
		}
		cond := fmt.Sprintf("(select %s %s)", alloc0, r)
		if len(excl) > 0 {
			cond = fmt.Sprintf("(and %s %s)", cond, strings.Join(excl, " "))
		}
		goals = append(goals, fmt.Sprintf("(forall ((r Ref)) (=> %s (= (select %s r) (select %s r))))", cond, fin, ini))
	}
	goal := "true"
	if len(goals) > 0 {
		goal = "(and " + strings.Join(goals, " ") + ")"
	}
	e.oblige("frame", fmt.Sprintf("writes@ret%d", e.retCount-1), "writes", guard, goal, pos, "modifies "+strings.Join(e.fc.Modifies, ", "))
}

// ---------- locals that do not escape ----------

// escapes computes (once) the set of allocation sites whose address leaves the function.
func (e *Enc) computeEscapes() {
	e.unescaped = map[ssa.Value]bool{}
	for _, b := range e.fn.Blocks {
		for _, ins := range b.Instrs {
			switch v := ins.(type) {
			case *ssa.Alloc, *ssa.MakeMap, *ssa.MakeSlice:
				val := v.(ssa.Value)
				if !e.valueEscapes(val, map[ssa.Value]bool{}) {
					e.unescaped[val] = true
				}
			}
		}
	}
}

func (e *Enc) valueEscapes(v ssa.Value, seen map[ssa.Value]bool) bool {
	if seen[v] {
		return false
	}
	seen[v] = true
	refs := v.Referrers()
	if refs == nil {
		return true
	}
	for _, r := range *refs {
		switch r := r.(type) {
		case *ssa.DebugRef:
		case *ssa.UnOp:
			// load: the loaded value is a copy
		case *ssa.Store:
			if r.Val == v {
				return true
			}
		case *ssa.FieldAddr, *ssa.IndexAddr:
			if e.valueEscapes(r.(ssa.Value), seen) {
				return true
			}
		case *ssa.Slice:
			if e.valueEscapes(r, seen) {
				return true
			}
		case *ssa.MakeClosure:
			// captured by a closure of this function: treated as local (closures here do not leak captures)
		case *ssa.Return:
			// handing the object to the caller at the very end is not an escape during the function
		case *ssa.Index, *ssa.Lookup, *ssa.Range:
		case *ssa.MapUpdate:
			if r.Map != v {
				return true
			}
		case *ssa.Call:
			c := r.Common()
			if bi, ok := c.Value.(*ssa.Builtin); ok {
				switch bi.Name() {
				case "len", "cap", "copy", "delete":
					continue
				}
			}
			if fc := e.w.callContract(e.resolveCallee(c).key); fc != nil && (fc.Borrows || fc.Pure) {
				continue // the callee's contract says it does not retain its pointer arguments
			}
			return true
		default:
			return true
		}
	}
	return false
}

// keepLocals re-establishes, after a heap havoc, the contents of objects that never escaped.
func (e *Enc) keepLocals(before, after *State) {
	if e.unescaped == nil {
		e.computeEscapes()
	}
	var vals []ssa.Value
	for v := range e.unescaped {
		if _, ok := e.val[v]; ok {
			vals = append(vals, v)
		}
	}
	sort.Slice(vals, func(i, j int) bool { return vals[i].Name() < vals[j].Name() })
	for _, v := range vals {
		r := e.val[v]
		if _, isSl := v.(*ssa.MakeSlice); isSl {
			r = fmt.Sprintf("(sl.arr %s)", r)
		}
		for _, k := range e.keyOrder {
			if !e.isHeapKey(k) {
				continue
			}
			a, b := e.get(before, k, e.keySort[k]), e.get(after, k, e.keySort[k])
			if a != b {
				e.assume(fmt.Sprintf("(= (select %s %s) (select %s %s))", b, r, a, r))
			}
		}
	}
}

// growAlloc: a callee may allocate; the set of allocated objects only grows.
func (e *Enc) growAlloc(st *State) {
	old := e.allocArr(st)
	n := e.havocKey(st, allocKey)
	e.assume(fmt.Sprintf("(forall ((r Ref)) (! (=> (select %s r) (select %s r)) :pattern ((select %s r))))", old, n, old))
	e.assume(fmt.Sprintf("(select %s null)", n))
}

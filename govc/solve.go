package main

// Script assembly and solver racing.

import (
	"context"
	"fmt"
	"go/types"
	"os"
	"os/exec"
	"path/filepath"
	"regexp"
	"sort"
	"strings"
	"sync"
	"time"
)

// script builds the SMT-LIB script of one obligation of an encoding.
func (e *Enc) script(o *Obligation) string {
	var b strings.Builder
	b.WriteString("; obligation " + o.Name + "\n; position " + o.Pos + "\n")
	if o.Src != "" {
		b.WriteString("; clause: " + strings.ReplaceAll(o.Src, "\n", " ") + "\n")
	}
	var asserts []string
	if o.block == nil {
		asserts = e.asserts // vacuity: all assumptions of the function together
		if !o.Cover {
			asserts = e.asserts[:o.nAsserts]
		}
	} else {
		// (cover obligations too: block-local assumptions of blocks that are not on a path to the
		// covered point are unguarded facts about other paths and must not be mixed in)
		// only assumptions made on some path to the obligation's block (and global facts)
		anc := e.ancestors(o.block)
		for i, a := range e.asserts[:o.nAsserts] {
			if b := e.assertBlk[i]; b == nil || anc[b] {
				asserts = append(asserts, a)
			}
		}
	}
	var body strings.Builder
	for _, a := range asserts {
		body.WriteString(a)
	}
	body.WriteString(o.Goal)
	body.WriteString(o.Guard)
	for _, d := range e.decls {
		body.WriteString(d)
	}
	for _, ax := range e.axioms {
		for _, sy := range ax.syms {
			if strings.Contains(body.String(), "("+sy+" ") {
				asserts = append(asserts, ax.term)
				body.WriteString(ax.term)
				break
			}
		}
	}
	raws := selectRaw(e.w.CS.SMT, e.mode.String(), body.String())
	for _, r := range raws {
		body.WriteString(r)
	}
	b.WriteString(e.st.prelude(body.String()))
	for _, d := range e.st.decls {
		b.WriteString(d + "\n")
	}
	for _, r := range raws {
		b.WriteString(r + "\n")
	}
	for _, d := range e.decls {
		b.WriteString(d + "\n")
	}
	// implements facts
	var ids []int
	for _, id := range e.st.typeIDs {
		ids = append(ids, id)
	}
	sort.Ints(ids)
	for _, ci := range ids {
		ct := e.st.typeOf[ci]
		if _, isI := ct.Underlying().(*types.Interface); isI {
			continue
		}
		for _, ii := range ids {
			it, isI := e.st.typeOf[ii].Underlying().(*types.Interface)
			if !isI {
				continue
			}
			b.WriteString(fmt.Sprintf("(assert (= (implements %d %d) %v))\n", ci, ii, types.Implements(ct, it)))
		}
	}
	// a type id fixes the representation of the boxed value
	for _, ci := range ids {
		ct := e.st.typeOf[ci]
		if _, isI := ct.Underlying().(*types.Interface); isI {
			continue
		}
		ctor := "iface.val"
		switch e.st.sortOf(ct) {
		case "Ref":
			ctor = "iface.ref"
		case "Str":
			ctor = "iface.str"
		case "Bool":
			ctor = "iface.bool"
		case "Slice":
			ctor = "iface.slice"
		default:
			if isInt(ct) {
				ctor = "iface.int"
			}
		}
		if strings.Contains(body.String(), "iface.wf") {
			b.WriteString(fmt.Sprintf("(assert (forall ((v Iface)) (! (=> (and (iface.wf v) (= (iface.typ v) %d)) ((_ is %s) v)) :pattern ((iface.wf v)))))\n", ci, ctor))
		}
	}
	for _, a := range asserts {
		b.WriteString("(assert " + a + ")\n")
	}
	if o.Cover {
		b.WriteString("(assert " + o.Goal + ")\n")
	} else {
		b.WriteString(fmt.Sprintf("(assert (not (=> %s %s)))\n", o.Guard, o.Goal))
	}
	b.WriteString("(check-sat)\n")
	if len(e.modelTerms()) > 0 && !o.Cover {
		b.WriteString("(get-value (" + strings.Join(e.modelTerms(), " ") + "))\n")
	}
	return b.String()
}

// modelTerms lists terms whose values are requested for counterexamples.
func (e *Enc) modelTerms() []string {
	var out []string
	var names []string
	for n := range e.params {
		names = append(names, n)
	}
	sort.Strings(names)
	for _, n := range names {
		tv := e.params[n]
		switch {
		case tv.Sort == "Int" || tv.Sort == "Bool" || strings.HasPrefix(tv.Sort, "(_ BitVec"):
			out = append(out, tv.T)
		case tv.Sort == "Str":
			out = append(out, fmt.Sprintf("(gs.len %s)", tv.T))
			for i := 0; i < 6; i++ {
				out = append(out, fmt.Sprintf("(gs.at %s %s)", tv.T, e.st.idxLit(int64(i))))
			}
		case tv.Sort == "Slice":
			out = append(out, fmt.Sprintf("(sl.len %s)", tv.T))
		}
	}
	return out
}

type solverSpec struct {
	name string
	args func(timeoutS int) []string
}

var solvers = []solverSpec{
	{"z3-new", func(t int) []string { return []string{"z3-new", fmt.Sprintf("-T:%d", t), "-smt2"} }},
	{"z3-new-ematch", func(t int) []string {
		return []string{"z3-new", fmt.Sprintf("-T:%d", t), "smt.auto_config=false", "smt.mbqi=false", "-smt2"}
	}},
	{"cvc5", func(t int) []string {
		return []string{"cvc5", fmt.Sprintf("--tlimit=%d", t*1000), "--produce-models", "--lang=smt2", "--finite-model-find"}
	}},
	{"z3", func(t int) []string { return []string{"z3", fmt.Sprintf("-T:%d", t), "-smt2"} }},
	{"cvc5-enum", func(t int) []string {
		return []string{"cvc5", fmt.Sprintf("--tlimit=%d", t*1000), "--produce-models", "--lang=smt2", "--enum-inst"}
	}},
}

type solveResult struct {
	result  string
	backend string
	ms      int64
	output  string
}

// at most this many solver processes run at once (16 cores)
var solverSlots = make(chan struct{}, 18)

func runSolver(ctx context.Context, sp solverSpec, file string, timeoutS int) solveResult {
	select {
	case solverSlots <- struct{}{}:
		defer func() { <-solverSlots }()
	case <-ctx.Done():
		return solveResult{result: "cancelled", backend: sp.name}
	}
	t0 := time.Now()
	args := sp.args(timeoutS)
	cctx, cancel := context.WithTimeout(ctx, time.Duration(timeoutS+2)*time.Second)
	defer cancel()
	cmd := exec.CommandContext(cctx, args[0], append(args[1:], file)...)
	out, _ := cmd.CombinedOutput()
	ms := time.Since(t0).Milliseconds()
	var kept []string
	for _, l := range strings.Split(string(out), "\n") {
		if strings.HasPrefix(l, "WARNING") || strings.TrimSpace(l) == "" {
			continue
		}
		kept = append(kept, l)
	}
	s := strings.TrimSpace(strings.Join(kept, "\n"))
	first := s
	if i := strings.Index(s, "\n"); i >= 0 {
		first = s[:i]
	}
	first = strings.TrimSpace(first)
	switch first {
	case "sat", "unsat", "unknown":
	default:
		if strings.Contains(s, "timeout") || cctx.Err() != nil {
			first = "timeout"
		} else if strings.HasPrefix(first, "(error") || strings.Contains(first, "rror") {
			first = "error"
		} else {
			first = "unknown"
		}
	}
	return solveResult{result: first, backend: sp.name, ms: ms, output: s}
}

// solveFile: z3-new starts at once; if it has not answered after a second the other back ends join
// the race. The first definite answer wins. quickOnly: a single short z3-new attempt.
func solveFile(file string, timeoutS int, quickOnly bool) solveResult {
	ctx := context.Background()
	if quickOnly {
		q := timeoutS / 4
		if q > 3 {
			q = 3
		}
		if q < 2 {
			q = 2
		}
		return runSolver(ctx, solvers[0], file, q)
	}
	t0 := time.Now()
	cctx, cancel := context.WithCancel(ctx)
	defer cancel()
	ch := make(chan solveResult, len(solvers))
	for i, sp := range solvers {
		go func(i int, sp solverSpec) {
			if i > 0 {
				select {
				case <-time.After(time.Duration(400+400*i) * time.Millisecond):
				case <-cctx.Done():
					ch <- solveResult{result: "cancelled", backend: sp.name}
					return
				}
			}
			ch <- runSolver(cctx, sp, file, timeoutS)
		}(i, sp)
	}
	best := solveResult{result: "timeout", backend: "all"}
	for i := 0; i < len(solvers); i++ {
		x := <-ch
		if x.result == "unsat" || x.result == "sat" {
			x.ms = time.Since(t0).Milliseconds()
			return x
		}
		if x.result != "cancelled" && (best.backend == "all" || (best.result == "error" && x.result != "error")) {
			best = x
		}
	}
	best.ms = time.Since(t0).Milliseconds()
	return best
}

// solveAll discharges obligations in parallel.
func solveAll(items []*workItem, outDir string, timeoutS int, workers int) {
	os.MkdirAll(outDir, 0o755)
	var wg sync.WaitGroup
	ch := make(chan *workItem)
	for w := 0; w < workers; w++ {
		wg.Add(1)
		go func() {
			defer wg.Done()
			for it := range ch {
				o := it.o
				if o.Static {
					if o.StaticOK {
						o.Result = "unsat"
					} else {
						o.Result = "sat"
					}
					o.Backend = "static"
					continue
				}
				file := filepath.Join(outDir, sanitizeFile(o.Name)+".smt2")
				os.WriteFile(file, []byte(it.script), 0o644)
				o.Script = file
				r := solveFile(file, timeoutS, o.Cover || it.quickOnly)
				o.Result, o.Backend, o.Ms = r.result, r.backend, r.ms
				if r.result == "sat" || r.result == "error" {
					o.Model = r.output
				}
			}
		}()
	}
	for _, it := range items {
		ch <- it
	}
	close(ch)
	wg.Wait()
}

type workItem struct {
	o         *Obligation
	script    string
	quickOnly bool // not claimed: one short solver attempt only
}

func sanitizeFile(s string) string {
	var b strings.Builder
	for _, c := range s {
		switch {
		case c >= 'a' && c <= 'z', c >= 'A' && c <= 'Z', c >= '0' && c <= '9', c == '.', c == '-', c == '_', c == '#', c == '@':
			b.WriteRune(c)
		default:
			b.WriteByte('_')
		}
	}
	r := b.String()
	if len(r) > 150 {
		r = r[:150]
	}
	return r
}

var rawSymRe = regexp.MustCompile(`\((?:declare-fun|define-fun|declare-const|declare-sort)\s+(\|[^|]*\||[^\s()]+)|\(declare-datatypes\s+\(\((\|[^|]*\||[^\s()]+)`)

// selectRaw returns the raw SMT blocks (in file order) whose declared symbols are used by the body or by
// another selected block.
func selectRaw(blocks []RawSMT, mode, body string) []string {
	type blk struct {
		text string
		syms []string
		in   bool
	}
	var bs []*blk
	for _, r := range blocks {
		if r.Mode != "" && r.Mode != mode {
			continue
		}
		b := &blk{text: r.Text}
		for _, m := range rawSymRe.FindAllStringSubmatch(r.Text, -1) {
			n := m[1]
			if n == "" {
				n = m[2]
			}
			b.syms = append(b.syms, n)
		}
		bs = append(bs, b)
	}
	text := body
	for changed := true; changed; {
		changed = false
		for _, b := range bs {
			if b.in {
				continue
			}
			for _, sy := range b.syms {
				if strings.Contains(text, sy) {
					b.in = true
					text += b.text
					changed = true
					break
				}
			}
		}
	}
	var out []string
	for _, b := range bs {
		if b.in {
			out = append(out, b.text)
		}
	}
	return out
}

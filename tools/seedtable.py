#!/usr/bin/env python3
"""Print the markdown table of seeded changes and the obligation groups that catch them now
(from selftest/last_run.txt, the log of the latest full `./check selftest`; first-run outcome from meta.json)."""
import json, glob, os, re
last = {}
for l in open('/verif/selftest/last_run.txt'):
    m = re.match(r'^(PASS|FAIL) mutants (C\d+)/seed-(\S+): (.*)$', l.strip())
    if m:
        last[(m.group(2), m.group(3))] = (m.group(1), m.group(4))
print("| seeded change | what it does | caught by (own property's check, latest full selftest run) |")
print("|---|---|---|")
for d in sorted(glob.glob('/verif/seeded/*')):
    n = os.path.basename(d); prop, var = n.split('-', 1)
    meta = json.load(open(d + '/meta.json'))
    title = ''
    if os.path.exists(d + '/README.md'):
        title = open(d + '/README.md').readline().strip('# \n')
        for sep in (' — ', ' - ', ': '):
            if sep in title:
                title = title.split(sep, 1)[1]; break
    st, txt = last.get((prop, var), ('?', 'not in the last selftest run'))
    txt = re.sub(r'^ok: ', '', txt)
    groups = [g.strip() for g in txt.split(';') if g.strip()]
    shown = ', '.join('`%s`' % g for g in groups[:2]) + (' ...' if len(groups) > 2 else '')
    if st == '?' and meta.get('detected') is False:
        now = '**NOT detected** (open; not in the must-fail corpus, see the round notes below)'
    else:
        now = shown if st == 'PASS' else '**NOT detected**'
    print('| %s | %s | %s |' % (n, title.replace('|', '/')[:150], now))

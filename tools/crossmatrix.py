#!/usr/bin/env python3
"""For every stored property-breaking change, run the checks of the OTHER properties whose packages contain the
patched files (through an overlay, never touching /repo) and list which of them also raise a VIOLATION.
usage: tools/crossmatrix.py [mutant-glob]   -> writes /verif/selftest/crossmatrix.txt"""
import glob, json, os, re, subprocess, sys, tempfile, shutil
from concurrent.futures import ThreadPoolExecutor
ENV = dict(os.environ, GOFLAGS="-mod=mod", GOPROXY="off", GOSUMDB="off", GOTOOLCHAIN="local")
props = json.load(open('/verif/props.json'))
def pkgdir(f):
    d = os.path.dirname(f)
    return './' + d if d else '.'
jobs = []
pat = sys.argv[1] if len(sys.argv) > 1 else '*/*.diff'
for m in sorted(glob.glob('/verif/selftest/mutants/' + pat)):
    P = os.path.basename(os.path.dirname(m))
    files = re.findall(r'^\+\+\+ b/(\S+)', open(m).read(), re.M)
    dirs = {pkgdir(f) for f in files}
    for Q, ps in props.items():
        if Q != P and dirs & set(ps['packages']):
            jobs.append((m, P, Q))
def run(job):
    m, P, Q = job
    tmp = tempfile.mkdtemp(prefix='cross')
    try:
        # build overlay with patch applied to copies
        ov = {}
        txt = open(m).read()
        files = re.findall(r'^\+\+\+ b/(\S+)', txt, re.M)
        for f in files:
            dst = os.path.join(tmp, 'src', f)
            os.makedirs(os.path.dirname(dst), exist_ok=True)
            shutil.copy(os.path.join('/repo', f), dst)
        p = subprocess.run(['patch', '-p1', '-s', '-d', os.path.join(tmp, 'src'), '-i', m], capture_output=True, text=True)
        if p.returncode != 0:
            return (m, P, Q, 'patch-failed', [])
        for f in files:
            ov[os.path.join('/repo', f)] = os.path.join(tmp, 'src', f)
        ovf = os.path.join(tmp, 'ov.json')
        json.dump(ov, open(ovf, 'w'))
        r = subprocess.run(['/verif/bin/govc', 'check', Q, '--overlay', ovf, '--no-evidence', '--out', os.path.join(tmp, 'out')], capture_output=True, text=True, env=ENV, cwd='/verif')
        groups = []
        for l in r.stdout.splitlines():
            if l.startswith('VIOLATION'):
                mm = re.search(r'replay=(\S+)', l)
                if mm and os.path.exists(mm.group(1)):
                    for rl in open(mm.group(1)):
                        if rl.startswith('failed obligation group:') or rl.startswith('bounded stand-in'):
                            groups.append(rl.strip().replace('failed obligation group: ', '')[:110]); break
        return (m, P, Q, r.returncode, groups)
    finally:
        shutil.rmtree(tmp, ignore_errors=True)
with ThreadPoolExecutor(4) as ex:
    res = list(ex.map(run, jobs))
out = []
for m, P, Q, rc, groups in res:
    if rc != 0:
        out.append(f"{P}/{os.path.basename(m)[:-5]} also alarms {Q} (rc={rc}): {'; '.join(groups[:4])}{' ...' if len(groups) > 4 else ''}")
open('/verif/selftest/crossmatrix.txt', 'w').write('\n'.join(out) + '\n')
print(f"{len(jobs)} runs, {len(out)} cross alarms")

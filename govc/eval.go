package main

// Evaluation of contract expressions to SMT terms.

import (
	"hash/fnv"
	"fmt"
	"go/token"
	"go/types"
	"math/big"
	"strings"

	"golang.org/x/tools/go/ssa"
)

type evalCtx struct {
	e        *Enc
	st, old  *State
	bind     map[string]TV
	block    *ssa.BasicBlock
	idx      int
	noLocals bool
	headerOf *loopInfo
	stepOf   *loopInfo
	qvars    map[string]TV
	inOld    bool
	clause   *Clause
	useParams bool
	paramsFirst bool // postconditions: parameters denote entry values and shadow locals
}

func (e *Enc) ctxEntry(st *State) *evalCtx {
	return &evalCtx{e: e, st: st, old: st, bind: map[string]TV{}, noLocals: true, useParams: true}
}

func (e *Enc) ctxAt(st *State, b *ssa.BasicBlock, idx int) *evalCtx {
	c := &evalCtx{e: e, st: st, old: e.init, bind: map[string]TV{}, block: b, idx: idx, useParams: true}
	if e.loops[b] != nil && idx == 0 {
		// at a loop header: start after the phis so they are visible
		for i, ins := range b.Instrs {
			if _, ok := ins.(*ssa.Phi); !ok {
				c.idx = i
				break
			}
		}
	}
	return c
}

func (e *Enc) ctxReturn(st *State, ret *ssa.Return) *evalCtx {
	c := &evalCtx{e: e, st: st, old: e.init, bind: map[string]TV{}, useParams: true, paramsFirst: true}
	c.block = ret.Block()
	for i, ins := range c.block.Instrs {
		if ins == ssa.Instruction(ret) {
			c.idx = i
		}
	}
	var results []TV
	for _, r := range ret.Results {
		results = append(results, TV{T: e.term(r), Typ: r.Type(), Sort: e.st.sortOf(r.Type())})
	}
	e.bindResults(c, e.fn.Signature, results)
	return c
}

func (c *evalCtx) cur() *State {
	if c.inOld {
		return c.old
	}
	return c.st
}

func (c *evalCtx) fail(f string, a ...interface{}) {
	where := ""
	if c.clause != nil {
		where = fmt.Sprintf(" [%s:%d: %s]", c.clause.File, c.clause.Line, c.clause.Src)
	}
	c.e.fail("%s%s", fmt.Sprintf(f, a...), where)
}

func (c *evalCtx) evalBool(cl *Clause) string {
	c.clause = cl
	tv := c.eval(cl.E)
	if tv.Sort != "Bool" {
		c.fail("clause is not boolean (sort %s)", tv.Sort)
	}
	return tv.T
}

func (c *evalCtx) intTV(t string) TV {
	return TV{T: t, Typ: types.Typ[types.Int], Sort: c.e.st.idx()}
}

// ---------- name resolution ----------

// lookup resolves a name; captured variables denote their current value.
func (c *evalCtx) lookup(name string) (TV, bool) {
	tv, ok := c.lookupRaw(name)
	if ok && tv.Cell {
		pt, isP := tv.Typ.Underlying().(*types.Pointer)
		if isP {
			l := &lvalue{base: tv.T, root: pt.Elem()}
			if at, isA := pt.Elem().Underlying().(*types.Array); isA {
				l.root, l.elems = at.Elem(), true
			}
			v, _ := c.e.load(l, c.cur())
			return TV{T: v, Typ: pt.Elem(), Sort: c.e.st.sortOf(pt.Elem())}, true
		}
	}
	return tv, ok
}

func (c *evalCtx) lookupRaw(name string) (TV, bool) {
	e := c.e
	if tv, ok := c.qvars[name]; ok {
		return tv, true
	}
	if tv, ok := c.bind[name]; ok {
		return tv, true
	}
	if c.paramsFirst && c.useParams {
		if tv, ok := e.params[name]; ok {
			return tv, true
		}
	}
	if c.inOld && c.stepOf == nil && c.useParams {
		// old(x) of a parameter outside step clauses: its value at function entry
		if tv, ok := e.params[name]; ok {
			return tv, true
		}
	}
	if c.inOld && c.stepOf != nil {
		// old(x) in a step clause: the value of x at the start of the iteration
		for _, ins := range c.stepOf.header.Instrs {
			phi, ok := ins.(*ssa.Phi)
			if !ok {
				break
			}
			if phi.Comment == name {
				return TV{T: e.term(phi), Typ: phi.Type(), Sort: e.st.sortOf(phi.Type())}, true
			}
		}
	}
	if !c.noLocals {
		if tv, ok := c.lookupLocal(name); ok {
			return tv, true
		}
	}
	if c.useParams {
		if tv, ok := e.params[name]; ok {
			return tv, true
		}
	}
	if gv, ok := e.w.CS.Ghosts[name]; ok {
		key := "G:" + name
		s := e.st.ghostSort(gv.Sort)
		var typ types.Type
		if gv.Sort == "int" {
			typ = types.Typ[types.Int]
		}
		return TV{T: e.get(c.cur(), key, s), Typ: typ, Sort: s}, true
	}
	return TV{}, false
}

// isOwn reports whether the context evaluates the enclosing function's own contract
// (parameters visible) as opposed to a callee's contract (only explicit bindings).
func (c *evalCtx) isOwn() bool { return c.useParams }

func (c *evalCtx) lookupLocal(name string) (TV, bool) {
	e := c.e
	if c.block == nil {
		return TV{}, false
	}
	// step clauses: header phis denote the value carried to the next iteration
	if c.stepOf != nil {
		for _, ins := range c.stepOf.header.Instrs {
			phi, ok := ins.(*ssa.Phi)
			if !ok {
				break
			}
			if phi.Comment == name {
				for j, bp := range c.stepOf.header.Preds {
					if bp == c.block {
						v := phi.Edges[j]
						return TV{T: e.term(v), Typ: phi.Type(), Sort: e.st.sortOf(phi.Type())}, true
					}
				}
			}
		}
	}
	first := true
	for blk := c.block; blk != nil; blk = blk.Idom() {
		start := len(blk.Instrs) - 1
		if first {
			start = c.idx - 1
			if start >= len(blk.Instrs) {
				start = len(blk.Instrs) - 1
			}
			first = false
		}
		for i := start; i >= 0; i-- {
			switch ins := blk.Instrs[i].(type) {
			case *ssa.Phi:
				if ins.Comment == name {
					return TV{T: e.term(ins), Typ: ins.Type(), Sort: e.st.sortOf(ins.Type())}, true
				}
			case *ssa.DebugRef:
				obj := ins.Object()
				if obj == nil || obj.Name() != name {
					continue
				}
				if vv, isVar := obj.(*types.Var); !isVar || vv.IsField() {
					continue
				}
				if ins.IsAddr {
					l := e.lvalOf(ins.X)
					if l == nil {
						continue
					}
					v, t := e.load(l, c.cur())
					if t == nil {
						t = deref(ins.X.Type())
					}
					return TV{T: v, Typ: t, Sort: e.st.sortOf(t)}, true
				}
				if _, isC := ins.X.(*ssa.Const); isC {
					// a declaration's DebugRef may show the zero value although the variable is
					// initialised right after it: prefer the single non-constant value if there is one
					if v := e.singleValueOf(obj); v != nil && e.dominatesPoint(v, c.block) {
						return TV{T: e.term(v), Typ: v.Type(), Sort: e.st.sortOf(v.Type())}, true
					}
				}
				if _, known := e.val[ins.X]; !known {
					if _, isC := ins.X.(*ssa.Const); !isC {
						if _, isP := ins.X.(*ssa.Parameter); !isP {
							if _, ov := e.override[ins.X]; !ov {
								if _, isT := e.tup[ins.X]; !isT {
									continue
								}
							}
						}
					}
				}
				return TV{T: e.term(ins.X), Typ: ins.X.Type(), Sort: e.st.sortOf(ins.X.Type())}, true
			case *ssa.Alloc:
				if ins.Comment == name {
					l := e.lvalOf(ins)
					v, t := e.load(l, c.cur())
					if t == nil {
						t = deref(ins.Type())
					}
					return TV{T: v, Typ: t, Sort: e.st.sortOf(t)}, true
				}
			}
		}
	}
	return TV{}, false
}

// ---------- evaluation ----------

func (c *evalCtx) eval(x Expr) TV {
	e := c.e
	switch x := x.(type) {
	case *EInt:
		n, _ := new(big.Int).SetString(x.V, 10)
		return TV{T: e.st.intLit(n, types.Typ[types.Int]), Typ: types.Typ[types.UntypedInt], Sort: e.st.idx()}
	case *EStr:
		return TV{T: e.strConst(x.V), Typ: types.Typ[types.String], Sort: "Str"}
	case *EBool:
		if x.V {
			return TV{T: "true", Sort: "Bool"}
		}
		return TV{T: "false", Sort: "Bool"}
	case *ENil:
		return TV{T: "null", Typ: types.Typ[types.UntypedNil], Sort: "Ref"}
	case *EIdent:
		if x.Name == "result" {
			if tv, ok := c.bind["result"]; ok {
				return tv
			}
			c.fail("result is not available here")
		}
		if tv, ok := c.lookup(x.Name); ok {
			return tv
		}
		c.fail("unresolved name %q", x.Name)
	case *EOld:
		saved := c.inOld
		c.inOld = true
		tv := c.eval(x.X)
		c.inOld = saved
		return tv
	case *EUn:
		v := c.eval(x.X)
		switch x.Op {
		case "!":
			return TV{T: fmt.Sprintf("(not %s)", v.T), Sort: "Bool"}
		case "-":
			if e.mode == ModeBV {
				return TV{T: fmt.Sprintf("(bvneg %s)", v.T), Typ: v.Typ, Sort: v.Sort}
			}
			return TV{T: fmt.Sprintf("(- %s)", v.T), Typ: v.Typ, Sort: v.Sort}
		}
	case *EIte:
		cnd := c.eval(x.C)
		a, b := c.evalPair(x.A, x.B)
		return TV{T: fmt.Sprintf("(ite %s %s %s)", cnd.T, a.T, b.T), Typ: a.Typ, Sort: a.Sort}
	case *EBin:
		return c.evalBin(x)
	case *EField:
		return c.evalField(x)
	case *EIndex:
		return c.evalIndex(x)
	case *ESlice:
		return c.evalSlice(x)
	case *ECall:
		return c.evalCall(x)
	case *EAssert:
		v := c.eval(x.X)
		t := e.resolveType(x.Typ)
		if t == nil {
			c.fail("unknown type %q", x.Typ)
		}
		if _, isI := t.Underlying().(*types.Interface); isI {
			return TV{T: v.T, Typ: t, Sort: "Iface"}
		}
		p, _ := e.unbox(v.T, t)
		return TV{T: p, Typ: t, Sort: e.st.sortOf(t)}
	case *EQuant:
		saved := c.qvars
		nq := map[string]TV{}
		for k, v := range saved {
			nq[k] = v
		}
		var decl []string
		var wf []string
		for _, qv := range x.Vars {
			name := q("q:" + qv[0])
			var typ types.Type
			sortS := ""
			switch qv[1] {
			case "int":
				typ, sortS = types.Typ[types.Int], e.st.idx()
			case "byte":
				typ, sortS = types.Typ[types.Uint8], e.st.byteSort()
			case "string":
				typ, sortS = types.Typ[types.String], "Str"
			case "bool", "ref", "value", "iface", "slice":
				sortS = e.st.ghostSort(qv[1])
			default:
				if t := e.resolveType(qv[1]); t != nil {
					typ, sortS = t, e.st.sortOf(t)
				} else {
					sortS = e.st.ghostSort(qv[1])
				}
			}
			nq[qv[0]] = TV{T: name, Typ: typ, Sort: sortS}
			decl = append(decl, fmt.Sprintf("(%s %s)", name, sortS))
			if qv[1] == "byte" && e.mode == ModeInt {
				wf = append(wf, fmt.Sprintf("(byte.ok %s)", name))
			}
		}
		c.qvars = nq
		body := c.eval(x.Body)
		c.qvars = saved
		kw := "forall"
		bt := body.T
		if !x.Forall {
			kw = "exists"
			if len(wf) > 0 {
				bt = fmt.Sprintf("(and %s %s)", strings.Join(wf, " "), bt)
			}
		} else if len(wf) > 0 {
			bt = fmt.Sprintf("(=> (and %s) %s)", strings.Join(wf, " "), bt)
		}
		return TV{T: fmt.Sprintf("(%s (%s) %s)", kw, strings.Join(decl, " "), bt), Sort: "Bool"}
	}
	c.fail("cannot evaluate %s", x.String())
	return TV{}
}

func isUntyped(t types.Type) bool {
	b, ok := t.(*types.Basic)
	return ok && b.Info()&types.IsUntyped != 0
}

// evalPair evaluates two operands, letting literals adopt the other side's type.
func (c *evalCtx) evalPair(x, y Expr) (TV, TV) {
	a, b := c.eval(x), c.eval(y)
	a, b = c.coerce(a, b), c.coerce(b, a)
	return a, b
}

// coerce adapts literal a to the type/sort of b.
func (c *evalCtx) coerce(a, b TV) TV {
	e := c.e
	if a.Sort == b.Sort {
		if a.Typ == nil || isUntyped(a.Typ) {
			if b.Typ != nil && !isUntyped(b.Typ) {
				a.Typ = b.Typ
			}
		}
		return a
	}
	// nil literal
	if a.T == "null" && a.Typ == types.Typ[types.UntypedNil] {
		switch b.Sort {
		case "Iface":
			return TV{T: "iface.nil", Typ: b.Typ, Sort: "Iface"}
		case "Slice":
			return TV{T: "slice.nil", Typ: b.Typ, Sort: "Slice"}
		}
		return a
	}
	// integer literal in bv mode with a narrower/wider partner
	if e.mode == ModeBV && a.Typ != nil && isUntyped(a.Typ) && strings.HasPrefix(b.Sort, "(_ BitVec") && strings.HasPrefix(a.T, "(_ bv") {
		var n big.Int
		parts := strings.Fields(strings.Trim(a.T, "()"))
		n.SetString(strings.TrimPrefix(parts[1], "bv"), 10)
		// literals are produced at 64 bits; reinterpret as signed before narrowing
		if n.Bit(63) == 1 {
			n.Sub(&n, new(big.Int).Lsh(big.NewInt(1), 64))
		}
		bt := b.Typ
		if bt == nil {
			bt = bvTypeOfSort(b.Sort)
		}
		return TV{T: e.st.intLit(&n, bt), Typ: bt, Sort: b.Sort}
	}
	return a
}

var cmpTok = map[string]token.Token{"<": token.LSS, "<=": token.LEQ, ">": token.GTR, ">=": token.GEQ}
var arithTok = map[string]token.Token{"+": token.ADD, "-": token.SUB, "*": token.MUL, "/": token.QUO, "%": token.REM,
	"<<": token.SHL, ">>": token.SHR, "&": token.AND, "|": token.OR, "^": token.XOR}

func (c *evalCtx) evalBin(x *EBin) TV {
	e := c.e
	switch x.Op {
	case "&&", "||", "==>", "<==>":
		a, b := c.eval(x.X), c.eval(x.Y)
		if a.Sort != "Bool" || b.Sort != "Bool" {
			c.fail("operands of %s must be boolean in %s", x.Op, x.String())
		}
		op := map[string]string{"&&": "and", "||": "or", "==>": "=>", "<==>": "="}[x.Op]
		return TV{T: fmt.Sprintf("(%s %s %s)", op, a.T, b.T), Sort: "Bool"}
	case "==", "!=":
		a, b := c.evalPair(x.X, x.Y)
		if a.Sort != b.Sort {
			c.fail("comparison between sorts %s and %s in %s", a.Sort, b.Sort, x.String())
		}
		if a.Sort == "Str" && len(c.qvars) == 0 {
			e.strExt(a.T, b.T)
		}
		t := fmt.Sprintf("(= %s %s)", a.T, b.T)
		if x.Op == "!=" {
			t = "(not " + t + ")"
		}
		return TV{T: t, Sort: "Bool"}
	case "<", "<=", ">", ">=":
		a, b := c.evalPair(x.X, x.Y)
		if a.Sort != b.Sort {
			c.fail("comparison between sorts %s and %s in %s", a.Sort, b.Sort, x.String())
		}
		t := a.Typ
		if t == nil || isUntyped(t) {
			t = b.Typ
		}
		if t == nil || isUntyped(t) {
			t = types.Typ[types.Int]
		}
		return TV{T: e.st.cmpInt(cmpTok[x.Op], a.T, b.T, t), Sort: "Bool"}
	}
	a, b := c.evalPair(x.X, x.Y)
	if a.Sort == "Str" && x.Op == "+" {
		return TV{T: fmt.Sprintf("(gs.cat %s %s)", a.T, b.T), Typ: types.Typ[types.String], Sort: "Str"}
	}
	t := a.Typ
	if t == nil || isUntyped(t) {
		t = b.Typ
	}
	if t == nil || isUntyped(t) {
		t = types.Typ[types.Int]
	}
	yt := b.Typ
	if yt == nil || isUntyped(yt) {
		yt = t
	}
	if x.Op == "<<" || x.Op == ">>" {
		// shift count literal: keep its own width equal to operand width
		if a.Sort != b.Sort && e.mode == ModeBV {
			b = c.coerce(b, a)
			yt = t
		}
	} else if a.Sort != b.Sort {
		c.fail("arithmetic between sorts %s and %s in %s", a.Sort, b.Sort, x.String())
	}
	r, ok := e.st.binInt(arithTok[x.Op], a.T, b.T, t, yt)
	if !ok {
		c.fail("operator %s not available in %s mode", x.Op, e.mode)
	}
	return TV{T: r, Typ: t, Sort: a.Sort}
}

// walkField follows a field selection on a value.
func (c *evalCtx) selectField(v TV, name string) (TV, bool) {
	e := c.e
	if v.Typ == nil {
		return TV{}, false
	}
	T := v.Typ
	// ghost fields
	if sc := e.structContract(deref(T)); sc != nil {
		if gs, ok := sc.GhostFields[name]; ok {
			key, ks, es := e.ghostFieldKey(deref(T), name)
			var typ types.Type
			if gs == "int" {
				typ = types.Typ[types.Int]
			}
			return TV{T: fmt.Sprintf("(select %s %s)", e.get(c.cur(), key, ks), v.T), Typ: typ, Sort: es}, true
		}
	}
	var pkg *types.Package
	if n, ok := deref(T).(*types.Named); ok {
		pkg = n.Obj().Pkg()
	}
	obj, index, _ := types.LookupFieldOrMethod(T, true, pkg, name)
	fv, ok := obj.(*types.Var)
	if !ok || !fv.IsField() {
		return TV{}, false
	}
	cur := v
	for _, fi := range index {
		ct := cur.Typ
		if pt, ok := ct.Underlying().(*types.Pointer); ok {
			st := pt.Elem()
			su, ok := st.Underlying().(*types.Struct)
			if !ok {
				return TV{}, false
			}
			f := su.Field(fi)
			k, ks := e.fieldKey(st, f)
			cur = TV{T: fmt.Sprintf("(select %s %s)", e.get(c.cur(), k, ks), cur.T), Typ: f.Type(), Sort: e.st.sortOf(f.Type())}
			continue
		}
		su, ok := ct.Underlying().(*types.Struct)
		if !ok {
			return TV{}, false
		}
		e.st.sortOf(ct)
		f := su.Field(fi)
		cur = TV{T: fmt.Sprintf("(%s %s)", e.st.fieldAcc(ct, f.Name()), cur.T), Typ: f.Type(), Sort: e.st.sortOf(f.Type())}
	}
	return cur, true
}

func (c *evalCtx) evalField(x *EField) TV {
	// result.N
	if id, ok := x.X.(*EIdent); ok && id.Name == "result" {
		if tv, ok := c.bind["result."+x.Name]; ok {
			return tv
		}
	}
	v := c.eval(x.X)
	if tv, ok := c.selectField(v, x.Name); ok {
		if !strings.Contains(tv.T, "|q:") && tv.Typ != nil && (tv.Sort == "Slice" || tv.Sort == "Ref") {
			// the heap is closed: what a field holds is allocated in the state it is read from
			c.e.assumeWFg(tv.T, tv.Typ, c.cur(), "true")
		}
		return tv
	}
	c.fail("no field %s on %s (type %v)", x.Name, x.X.String(), v.Typ)
	return TV{}
}

func (c *evalCtx) evalIndex(x *EIndex) TV {
	e := c.e
	v := c.eval(x.X)
	i := c.eval(x.I)
	if v.Typ == nil && v.Sort == "Str" {
		v.Typ = types.Typ[types.String]
	}
	if v.Typ != nil {
		switch u := v.Typ.Underlying().(type) {
		case *types.Slice:
			k, ks := e.elemsKey(u.Elem())
			i = c.coerce(i, c.intTV(""))
			return TV{T: e.slGet(u.Elem(), fmt.Sprintf("(select %s (sl.arr %s))", e.get(c.cur(), k, ks), v.T), fmt.Sprintf("(sl.off %s)", v.T), i.T), Typ: u.Elem(), Sort: e.st.sortOf(u.Elem())}
		case *types.Basic:
			if v.Sort == "Str" {
				return TV{T: fmt.Sprintf("(gs.at %s %s)", v.T, i.T), Typ: types.Typ[types.Uint8], Sort: e.st.byteSort()}
			}
		case *types.Map:
			_, _, vk, vs := e.mapKeys(u)
			return TV{T: fmt.Sprintf("(select (select %s %s) %s)", e.get(c.cur(), vk, vs), v.T, i.T), Typ: u.Elem(), Sort: e.st.sortOf(u.Elem())}
		case *types.Array:
			return TV{T: fmt.Sprintf("(select %s %s)", v.T, i.T), Typ: u.Elem(), Sort: e.st.sortOf(u.Elem())}
		}
	}
	if strings.HasPrefix(v.Sort, "(Array ") {
		// ghost array: element sort is the last component
		es := arrayElemSort(v.Sort)
		var typ types.Type
		if es == e.st.idx() {
			typ = types.Typ[types.Int]
		} else if es == "Str" {
			typ = types.Typ[types.String]
		} else if strings.HasPrefix(es, "(_ BitVec") {
			typ = bvTypeOfSort(es)
		}
		return TV{T: fmt.Sprintf("(select %s %s)", v.T, i.T), Typ: typ, Sort: es}
	}
	if v.Sort == "Seq" {
		return TV{T: fmt.Sprintf("(seq.at %s %s)", v.T, i.T), Typ: types.Typ[types.Uint8], Sort: e.st.byteSort()}
	}
	c.fail("cannot index %s", x.X.String())
	return TV{}
}

// arrayElemSort returns the element sort of "(Array K V)".
func arrayElemSort(s string) string {
	inner := strings.TrimSuffix(strings.TrimPrefix(s, "(Array "), ")")
	// skip the key sort
	depth := 0
	for i, ch := range inner {
		switch ch {
		case '(':
			depth++
		case ')':
			depth--
		case ' ':
			if depth == 0 {
				return inner[i+1:]
			}
		}
	}
	return inner
}

func (c *evalCtx) evalSlice(x *ESlice) TV {
	e := c.e
	v := c.eval(x.X)
	lo := "idx.zero"
	if x.Lo != nil {
		lo = c.eval(x.Lo).T
	}
	switch v.Sort {
	case "Str":
		hi := fmt.Sprintf("(gs.len %s)", v.T)
		if x.Hi != nil {
			hi = c.eval(x.Hi).T
		}
		return TV{T: fmt.Sprintf("(gs.sub %s %s %s)", v.T, lo, hi), Typ: v.Typ, Sort: "Str"}
	case "Slice":
		hi := fmt.Sprintf("(sl.len %s)", v.T)
		if x.Hi != nil {
			hi = c.eval(x.Hi).T
		}
		return TV{T: fmt.Sprintf("(mkslice (sl.arr %s) (idx.add (sl.off %s) %s) (idx.sub %s %s) (idx.sub (sl.cap %s) %s))", v.T, v.T, lo, hi, lo, v.T, lo), Typ: v.Typ, Sort: "Slice"}
	}
	_ = e
	c.fail("cannot slice %s", x.X.String())
	return TV{}
}

func (c *evalCtx) mutexArg(x Expr) mutexRef {
	f, ok := x.(*EField)
	if !ok {
		c.fail("holds() expects x.mutex")
	}
	obj := c.eval(f.X)
	if obj.Typ == nil {
		c.fail("holds(): untyped object")
	}
	st := deref(obj.Typ)
	su, ok := st.Underlying().(*types.Struct)
	if !ok {
		c.fail("holds(): %s is not a struct", st)
	}
	for i := 0; i < su.NumFields(); i++ {
		if su.Field(i).Name() == f.Name {
			return mutexRef{structT: st, field: f.Name, obj: obj.T, ok: true, rw: isSyncType(su.Field(i).Type(), "RWMutex")}
		}
	}
	c.fail("holds(): no mutex field %s", f.Name)
	return mutexRef{}
}

func (c *evalCtx) evalCall(x *ECall) TV {
	e := c.e
	switch x.Fn {
	case "len":
		v := c.eval(x.Args[0])
		switch v.Sort {
		case "Str":
			return c.intTV(fmt.Sprintf("(gs.len %s)", v.T))
		case "Slice":
			return c.intTV(fmt.Sprintf("(sl.len %s)", v.T))
		case "Seq":
			return c.intTV(fmt.Sprintf("(seq.len %s)", v.T))
		}
		if v.Typ != nil {
			if at, ok := v.Typ.Underlying().(*types.Array); ok {
				return c.intTV(e.st.idxLit(at.Len()))
			}
		}
		c.fail("len of %s", v.Sort)
	case "recovered":
		// recovered(): the value recover() returns in a deferred function
		return TV{T: e.recoveredValue(), Typ: types.NewInterfaceType(nil, nil), Sort: "Iface"}
	case "arr":
		// arr(s): the backing array of slice s
		v := c.eval(x.Args[0])
		if v.Sort != "Slice" {
			c.fail("arr() of non-slice")
		}
		return TV{T: fmt.Sprintf("(sl.arr %s)", v.T), Sort: "Ref"}
	case "cap":
		v := c.eval(x.Args[0])
		return c.intTV(fmt.Sprintf("(sl.cap %s)", v.T))
	case "holds", "rholds":
		m := c.mutexArg(x.Args[0])
		k, ks := e.lockKey(m, x.Fn == "rholds")
		return TV{T: fmt.Sprintf("(select %s %s)", e.get(c.cur(), k, ks), m.obj), Sort: "Bool"}
	case "iface":
		// iface(x): the interface value obtained by boxing x (Go's implicit conversion to any)
		v := c.eval(x.Args[0])
		if v.Typ == nil {
			c.fail("iface() of untyped value")
		}
		return TV{T: e.box(v.T, v.Typ), Typ: types.NewInterfaceType(nil, nil), Sort: "Iface"}
	case "addr":
		// addr(x): the address of the address-taken local variable x
		id, ok := x.Args[0].(*EIdent)
		if !ok || c.block == nil {
			c.fail("addr(local)")
		}
		for blk := c.block; blk != nil; blk = blk.Idom() {
			for _, ins := range blk.Instrs {
				if al, ok := ins.(*ssa.Alloc); ok && al.Comment == id.Name {
					return TV{T: e.term(al), Typ: al.Type(), Sort: "Ref"}
				}
			}
		}
		c.fail("addr(%s): no such address-taken local", id.Name)
	case "ifaceas":
		// ifaceas("T", x): x boxed as a value of the named type T
		ts, ok := x.Args[0].(*EStr)
		if !ok {
			c.fail("ifaceas(\"T\", x)")
		}
		t := e.resolveType(ts.V)
		if t == nil {
			c.fail("unknown type %q", ts.V)
		}
		v := c.eval(x.Args[1])
		if v.Sort != e.st.sortOf(t) {
			c.fail("ifaceas: %s has sort %s, type %s needs %s", x.Args[1].String(), v.Sort, ts.V, e.st.sortOf(t))
		}
		return TV{T: e.box(v.T, t), Typ: types.NewInterfaceType(nil, nil), Sort: "Iface"}
	case "deref":
		v := c.eval(x.Args[0])
		if v.Typ == nil {
			c.fail("deref of untyped value")
		}
		pt, ok := v.Typ.Underlying().(*types.Pointer)
		if !ok {
			c.fail("deref of non-pointer")
		}
		l := &lvalue{base: v.T, root: pt.Elem()}
		val, _ := e.load(l, c.cur())
		return TV{T: val, Typ: pt.Elem(), Sort: e.st.sortOf(pt.Elem())}
	case "acq":
		// acq(x.f): value of protected field f of x when this thread last acquired its lock
		f, ok := x.Args[0].(*EField)
		if !ok {
			c.fail("acq(x.f)")
		}
		saved := c.st
		snap := c.cur().clone()
		for _, k := range e.keyOrder {
			if strings.HasPrefix(k, "SNAP:") {
				snap.m[strings.TrimPrefix(k, "SNAP:")] = e.get(c.cur(), k, e.keySort[k])
			}
		}
		savedOld, savedIn := c.old, c.inOld
		c.st, c.old, c.inOld = snap, snap, false
		tv := c.eval(f)
		c.st, c.old, c.inOld = saved, savedOld, savedIn
		return tv
	case "slot":
		// slot(x.f): the identity of field f of object x as a registry key (sync.Map fields are
		// keyed by slot, so that two registries of one object never alias)
		f, ok := x.Args[0].(*EField)
		if !ok {
			c.fail("slot(x.f)")
		}
		base := c.eval(f.X)
		if base.Typ == nil {
			c.fail("slot(x.f): untyped base")
		}
		bt := base.Typ
		if pt, isP := bt.Underlying().(*types.Pointer); isP {
			bt = pt.Elem()
		}
		return TV{T: fmt.Sprintf("(fslot %s %d)", base.T, fieldSlotID(bt, f.Name)), Sort: "Ref"}
	case "has":
		m := c.eval(x.Args[0])
		k := c.eval(x.Args[1])
		if m.Typ != nil {
			if mt, ok := m.Typ.Underlying().(*types.Map); ok {
				dk, ds, _, _ := e.mapKeys(mt)
				return TV{T: fmt.Sprintf("(and (not (= %s null)) (select (select %s %s) %s))", m.T, e.get(c.cur(), dk, ds), m.T, k.T), Sort: "Bool"}
			}
		}
		if strings.HasPrefix(m.Sort, "(Array ") {
			return TV{T: fmt.Sprintf("(select %s %s)", m.T, k.T), Sort: "Bool"}
		}
		c.fail("has() on non-map")
	case "istype":
		v := c.eval(x.Args[0])
		s, ok := x.Args[1].(*EStr)
		if !ok {
			c.fail("istype(x, \"T\")")
		}
		t := e.resolveType(s.V)
		if t == nil {
			c.fail("unknown type %q", s.V)
		}
		if _, isI := t.Underlying().(*types.Interface); isI {
			return TV{T: fmt.Sprintf("(and (not (= %s iface.nil)) (implements (iface.typ %s) %d))", v.T, v.T, e.st.typeID(t)), Sort: "Bool"}
		}
		_, test := e.unbox(v.T, t)
		return TV{T: test, Sort: "Bool"}
	case "typeof":
		v := c.eval(x.Args[0])
		return TV{T: fmt.Sprintf("(iface.typ %s)", v.T), Sort: "Int"}
	case "allocated":
		v := c.eval(x.Args[0])
		return TV{T: fmt.Sprintf("(select %s %s)", e.allocArr(c.cur()), v.T), Sort: "Bool"}
	case "sub":
		v := c.eval(x.Args[0])
		lo, hi := c.eval(x.Args[1]), c.eval(x.Args[2])
		return TV{T: fmt.Sprintf("(gs.sub %s %s %s)", v.T, lo.T, hi.T), Typ: types.Typ[types.String], Sort: "Str"}
	case "cat":
		a, b := c.eval(x.Args[0]), c.eval(x.Args[1])
		return TV{T: fmt.Sprintf("(gs.cat %s %s)", a.T, b.T), Typ: types.Typ[types.String], Sort: "Str"}
	case "string":
		v := c.eval(x.Args[0])
		if v.Sort == "Slice" {
			elem := v.Typ.Underlying().(*types.Slice).Elem()
			k, ks := e.elemsKey(elem)
			return TV{T: fmt.Sprintf("(gs.of (sl.arr %s) (select %s (sl.arr %s)) (sl.off %s) (sl.len %s))", v.T, e.get(c.cur(), k, ks), v.T, v.T, v.T), Typ: types.Typ[types.String], Sort: "Str"}
		}
		return v
	case "int":
		v := c.eval(x.Args[0])
		if v.Typ != nil && isInt(v.Typ) && !isUntyped(v.Typ) {
			return c.intTV(e.st.convInt(v.T, v.Typ, types.Typ[types.Int]))
		}
		return c.intTV(v.T)
	case "byte":
		v := c.eval(x.Args[0])
		ft := v.Typ
		if ft == nil || isUntyped(ft) {
			ft = types.Typ[types.Int]
		}
		return TV{T: e.st.convInt(v.T, ft, types.Typ[types.Uint8]), Typ: types.Typ[types.Uint8], Sort: e.st.byteSort()}
	case "conv":
		// conv("type", x): Go integer conversion
		s, ok := x.Args[0].(*EStr)
		if !ok {
			c.fail("conv(\"T\", x)")
		}
		t := e.resolveType(s.V)
		v := c.eval(x.Args[1])
		ft := v.Typ
		if ft == nil || isUntyped(ft) {
			ft = types.Typ[types.Int]
		}
		return TV{T: e.st.convInt(v.T, ft, t), Typ: t, Sort: e.st.sortOf(t)}
	case "seen":
		// seen(k): key already produced by the (single) map range iterator visible at this loop
		k := c.eval(x.Args[0])
		for _, key := range e.keyOrder {
			if strings.HasPrefix(key, "IT:") {
				return TV{T: fmt.Sprintf("(select %s %s)", e.get(c.cur(), key, e.keySort[key]), k.T), Sort: "Bool"}
			}
		}
		c.fail("seen(): no map iterator in this function")
	}
	if sf, ok := e.w.CS.SpecFns[x.Fn]; ok {
		if len(sf.Args) != len(x.Args) {
			c.fail("%s expects %d arguments", x.Fn, len(sf.Args))
		}
		var as []string
		for i, a := range x.Args {
			v := c.eval(a)
			want := e.st.ghostSort(sf.Args[i])
			if v.Sort != want {
				// literal coercion
				v = c.coerce(v, TV{Sort: want, Typ: ghostGoType(sf.Args[i])})
			}
			if v.Sort != want {
				c.fail("%s: argument %d has sort %s, want %s", x.Fn, i, v.Sort, want)
			}
			as = append(as, v.T)
		}
		rs := e.st.ghostSort(sf.Ret)
		t := x.Fn
		if len(as) > 0 {
			t = fmt.Sprintf("(%s %s)", x.Fn, strings.Join(as, " "))
		}
		return TV{T: t, Typ: ghostGoType(sf.Ret), Sort: rs}
	}
	c.fail("unknown function %s", x.Fn)
	return TV{}
}

func ghostGoType(s string) types.Type {
	switch s {
	case "int":
		return types.Typ[types.Int]
	case "byte":
		return types.Typ[types.Uint8]
	case "string", "str":
		return types.Typ[types.String]
	case "bv8":
		return types.Typ[types.Uint8]
	case "bv16":
		return types.Typ[types.Uint16]
	case "bv32":
		return types.Typ[types.Uint32]
	case "bv64":
		return types.Typ[types.Uint64]
	case "i64":
		return types.Typ[types.Int64]
	case "i32":
		return types.Typ[types.Int32]
	case "float":
		return types.Typ[types.Float64]
	}
	return nil
}

// ---------- designators (modifies) ----------

type desigKey struct {
	key, sort string
	index     string // "" = whole
	elemSort  string
	typ       types.Type // Go type of the designated location, when known
}

func (c *evalCtx) designatorKeys(x Expr) []desigKey {
	e := c.e
	switch x := x.(type) {
	case *EIdent:
		if gv, ok := e.w.CS.Ghosts[x.Name]; ok {
			s := e.st.ghostSort(gv.Sort)
			return []desigKey{{key: "G:" + x.Name, sort: s}}
		}
		if tv, ok := c.lookupRaw(x.Name); ok && tv.Cell {
			if pt, isP := tv.Typ.Underlying().(*types.Pointer); isP {
				if su, isS := pt.Elem().Underlying().(*types.Struct); isS {
					var out []desigKey
					for i := 0; i < su.NumFields(); i++ {
						k, ks := e.fieldKey(pt.Elem(), su.Field(i))
						out = append(out, desigKey{key: k, sort: ks, index: tv.T, elemSort: arrayElemSort(ks)})
					}
					return out
				}
				k, ks := e.cellKey(pt.Elem())
				return []desigKey{{key: k, sort: ks, index: tv.T, elemSort: arrayElemSort(ks), typ: pt.Elem()}}
			}
		}
	case *ECall:
		switch x.Fn {
		case "holds", "rholds":
			m := c.mutexArg(x.Args[0])
			k, ks := e.lockKey(m, x.Fn == "rholds")
			out := []desigKey{{key: k, sort: ks, index: m.obj, elemSort: "Bool"}}
			// the view of the protected state changes with the lock
			for _, pk := range e.protectedKeys(m) {
				out = append(out, desigKey{key: pk[0], sort: pk[1], index: m.obj, elemSort: arrayElemSort(pk[1])})
			}
			return out
		case "elems":
			v := c.eval(x.Args[0])
			if v.Typ != nil {
				if sl, ok := v.Typ.Underlying().(*types.Slice); ok {
					k, ks := e.elemsKey(sl.Elem())
					return []desigKey{{key: k, sort: ks, index: fmt.Sprintf("(sl.arr %s)", v.T), elemSort: arrayElemSort(ks)}}
				}
			}
		case "mapof":
			v := c.eval(x.Args[0])
			if v.Typ != nil {
				if mt, ok := v.Typ.Underlying().(*types.Map); ok {
					dk, ds, vk, vs := e.mapKeys(mt)
					return []desigKey{{key: dk, sort: ds, index: v.T, elemSort: arrayElemSort(ds)}, {key: vk, sort: vs, index: v.T, elemSort: arrayElemSort(vs)}}
				}
			}
		case "deref":
			v := c.eval(x.Args[0])
			if v.Typ != nil {
				if pt, ok := v.Typ.Underlying().(*types.Pointer); ok {
					if su, ok := pt.Elem().Underlying().(*types.Struct); ok {
						var out []desigKey
						for i := 0; i < su.NumFields(); i++ {
							k, ks := e.fieldKey(pt.Elem(), su.Field(i))
							out = append(out, desigKey{key: k, sort: ks, index: v.T, elemSort: arrayElemSort(ks)})
						}
						return out
					}
					k, ks := e.cellKey(pt.Elem())
					return []desigKey{{key: k, sort: ks, index: v.T, elemSort: arrayElemSort(ks)}}
				}
			}
		case "all":
			// all("pkg.Type", "field"): the field at every object
			ts, ok1 := x.Args[0].(*EStr)
			fs, ok2 := x.Args[1].(*EStr)
			if ok1 && ok2 {
				t := e.resolveType(ts.V)
				if t != nil {
					if su, ok := t.Underlying().(*types.Struct); ok {
						for i := 0; i < su.NumFields(); i++ {
							if su.Field(i).Name() == fs.V {
								k, ks := e.fieldKey(t, su.Field(i))
								return []desigKey{{key: k, sort: ks}}
							}
						}
					}
				}
			}
		}
	case *EField:
		obj := c.eval(x.X)
		if obj.Typ == nil {
			break
		}
		st := deref(obj.Typ)
		if sc := e.structContract(st); sc != nil {
			if _, ok := sc.GhostFields[x.Name]; ok {
				k, ks, es := e.ghostFieldKey(st, x.Name)
				return []desigKey{{key: k, sort: ks, index: obj.T, elemSort: es}}
			}
		}
		if _, isPtr := obj.Typ.Underlying().(*types.Pointer); !isPtr {
			break
		}
		var pkg *types.Package
		if n, ok := st.(*types.Named); ok {
			pkg = n.Obj().Pkg()
		}
		o, index, _ := types.LookupFieldOrMethod(obj.Typ, true, pkg, x.Name)
		if fv, ok := o.(*types.Var); ok && fv.IsField() {
			su := st.Underlying().(*types.Struct)
			f := su.Field(index[0])
			k, ks := e.fieldKey(st, f)
			return []desigKey{{key: k, sort: ks, index: obj.T, elemSort: arrayElemSort(ks), typ: f.Type()}}
		}
	}
	return nil
}

// ---------- type names ----------

func (e *Enc) resolveType(s string) types.Type {
	s = strings.TrimSpace(s)
	if strings.HasPrefix(s, "*") {
		t := e.resolveType(s[1:])
		if t == nil {
			return nil
		}
		return types.NewPointer(t)
	}
	if strings.HasPrefix(s, "[]") {
		t := e.resolveType(s[2:])
		if t == nil {
			return nil
		}
		return types.NewSlice(t)
	}
	if o := types.Universe.Lookup(s); o != nil {
		if tn, ok := o.(*types.TypeName); ok {
			return tn.Type()
		}
	}
	pkgName, name := "", s
	if i := strings.Index(s, "."); i >= 0 {
		pkgName, name = s[:i], s[i+1:]
	}
	var cands []*types.Package
	seen := map[*types.Package]bool{}
	var walk func(p *types.Package)
	walk = func(p *types.Package) {
		if seen[p] {
			return
		}
		seen[p] = true
		cands = append(cands, p)
		for _, im := range p.Imports() {
			walk(im)
		}
	}
	if e.fn != nil && e.fn.Pkg != nil {
		walk(e.fn.Pkg.Pkg)
	}
	for _, p := range e.w.Pkgs {
		walk(p.Types)
	}
	for _, p := range cands {
		if pkgName == "" {
			if e.fn != nil && e.fn.Pkg != nil && p != e.fn.Pkg.Pkg {
				continue
			}
		} else if pkgShort(p) != pkgName {
			continue
		}
		if o := p.Scope().Lookup(name); o != nil {
			if tn, ok := o.(*types.TypeName); ok {
				return tn.Type()
			}
		}
	}
	return nil
}

// assumeAxioms evaluates contract-level axioms; each is included in a script only when one of the
// spec functions it mentions is used there (see script()).
func (e *Enc) assumeAxioms(st *State) {
	e.axioms = nil
	for _, ax := range e.w.CS.Axioms {
		ctx := e.ctxEntry(st)
		ctx.useParams = false
		func() {
			defer func() {
				if r := recover(); r != nil {
					if _, ok := r.(encErr); ok {
						return // axiom not expressible in this mode; skipped
					}
					panic(r)
				}
			}()
			n := len(e.asserts)
			t := ctx.evalBool(ax.C)
			// facts produced while evaluating (string constants) stay global; the axiom itself is conditional
			_ = n
			var syms []string
			for name := range e.w.CS.SpecFns {
				if strings.Contains(ax.C.Src, name+"(") {
					syms = append(syms, name)
				}
			}
			e.axioms = append(e.axioms, condAxiom{term: t, syms: syms})
		}()
	}
}

type condAxiom struct {
	term string
	syms []string
}

func bvTypeOfSort(s string) types.Type {
	switch s {
	case "(_ BitVec 8)":
		return types.Typ[types.Uint8]
	case "(_ BitVec 16)":
		return types.Typ[types.Uint16]
	case "(_ BitVec 32)":
		return types.Typ[types.Uint32]
	}
	return types.Typ[types.Int]
}

// singleValueOf returns the only non-constant SSA value bound to a variable by DebugRefs, if unique.
func (e *Enc) singleValueOf(obj types.Object) ssa.Value {
	var found ssa.Value
	for _, b := range e.fn.Blocks {
		for _, ins := range b.Instrs {
			dr, ok := ins.(*ssa.DebugRef)
			if !ok || dr.IsAddr || dr.Object() != obj {
				continue
			}
			if _, isC := dr.X.(*ssa.Const); isC {
				continue
			}
			if found != nil && found != dr.X {
				return nil
			}
			found = dr.X
		}
	}
	return found
}

func (e *Enc) dominatesPoint(v ssa.Value, b *ssa.BasicBlock) bool {
	switch v := v.(type) {
	case *ssa.Parameter, *ssa.FreeVar:
		return true
	case ssa.Instruction:
		return v.Block() == b || v.Block().Dominates(b)
	}
	return false
}

// fieldSlotID is a stable small integer naming field `name` of struct type t.
func fieldSlotID(t types.Type, name string) int {
	h := fnv.New32a()
	h.Write([]byte(typeStr(t) + "." + name))
	return int(h.Sum32() & 0x3fffffff)
}

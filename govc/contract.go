package main

// Contract files: parsing of //@ lines into declarations.

import (
	"fmt"
	"os"
	"regexp"
	"strconv"
	"strings"
)

type Clause struct {
	Name string // optional label
	Src  string
	E    Expr
	File string
	Line int
}

type StepClause struct {
	Name    string
	When    *Clause
	Ensures *Clause
}

type LoopContract struct {
	Invariants []*Clause
	Steps      []*StepClause
}

type CallsiteClause struct {
	Callee string // matched against normalized callee key suffix
	C      *Clause
}

type FuncContract struct {
	Key       string
	Mode      string // "int" (default) or "bv"
	ModeSet   bool   // an explicit mode line was given
	Requires  []*Clause
	Ensures   []*Clause
	RetAsserts []*Clause // like ensures, but names denote the current values of locals at the return
	Modifies  []string // raw designators
	Loops     map[int]*LoopContract
	Callsites []*CallsiteClause
	Consumes  []string
	NoEffects []string      // effect classes the function must not (transitively, through static calls) perform
	SpawnParent [][2]string // ghost, expr
	SpawnChild  [][2]string
	Pure      bool
	Trusted   bool   // body not verified (assumed contract on repository code)
	Assumed   bool   // came from /verif/contracts/assumed (dependency)
	Deterministic bool // no value depending on Go map iteration order, time or randomness
	NoPanic   bool   // no explicit panic statement of the function is reachable
	Borrows   bool   // pointer arguments are not retained by the callee
	NoFrame   bool   // do not generate frame obligation
	Variant   string // distinguishes several contract blocks for one function (e.g. "bv")
	LoopsOver map[string]*LoopContract // range operand text -> contract (`loop over x: ...`)
	Uses      map[string]string // callee key -> contract variant to apply at calls from this function
	File      string
	Line      int
	Used      bool
}

type OnRelease struct {
	Mutex string
	When  *Clause // may be nil
	Ghost string
	Val   *Clause
}

type StructContract struct {
	Type        string              // normalized e.g. runner.gate
	Protected   map[string][]string // mutex field -> fields
	Invariants  map[string][]*Clause
	Relies      map[string][]*Clause
	Guarantees  map[string][]*Clause
	Conds       map[string]string // cond field -> mutex field
	GhostFields map[string]string // name -> sort
	OnRelease   []*OnRelease
	Stable      map[string][]string // field -> functions allowed to write it
	ZeroInit    []*Clause           // facts about a freshly allocated (zero) value, `this` = its address
	File        string
	Line        int
}

type GhostVar struct {
	Name        string
	Sort        string
	ThreadLocal bool
	Init        string // expression source, may be ""
}

type SpecFn struct {
	Name string
	Args []string
	Ret  string
}

type RawSMT struct {
	Mode string // "int", "bv", "" (both)
	Text string
}

type Lemma struct {
	Name string
	Mode string
	Text string
	File string
}

type Axiom struct {
	Name string
	C    *Clause
	Mode string
}

type Contracts struct {
	Funcs   map[string][]*FuncContract // key -> variants
	Structs map[string]*StructContract
	Ghosts  map[string]*GhostVar
	GhostOrder []string
	SpecFns map[string]*SpecFn
	SMT     []RawSMT
	Lemmas  []*Lemma
	Axioms  []*Axiom
	EffectClasses map[string][]string
	IfaceEquivs [][2]string
	Files   []string
}

func NewContracts() *Contracts {
	return &Contracts{
		Funcs:   map[string][]*FuncContract{},
		Structs: map[string]*StructContract{},
		Ghosts:  map[string]*GhostVar{},
		SpecFns: map[string]*SpecFn{},
	}
}

var contLineEnd = regexp.MustCompile(`(&&|\|\||==>|::|,|\(|\+|<==>)\s*$`)

type srcLine struct {
	text string
	line int
}

// LoadContractFile parses one file. If repoStyle, only lines starting with //@ are considered.
func (cs *Contracts) LoadContractFile(path string, repoStyle bool) error {
	data, err := os.ReadFile(path)
	if err != nil {
		return err
	}
	cs.Files = append(cs.Files, path)
	var lines []srcLine
	for i, l := range strings.Split(string(data), "\n") {
		if repoStyle {
			t := strings.TrimSpace(l)
			if !strings.HasPrefix(t, "//@") {
				continue
			}
			l = strings.TrimPrefix(t, "//@")
		}
		lines = append(lines, srcLine{strings.TrimRight(l, " \t\r"), i + 1})
	}
	return cs.parseLines(path, lines, !repoStyle)
}

func mkClause(file string, line int, src string) (*Clause, error) {
	src = strings.TrimSpace(src)
	name := ""
	// optional "name:" label — an identifier (with dashes) followed by ':' and not '::'
	if m := regexp.MustCompile(`^([A-Za-z][A-Za-z0-9_\-]*):([^:].*)$`).FindStringSubmatch(src); m != nil {
		name = m[1]
		src = strings.TrimSpace(m[2])
	}
	e, err := ParseExpr(src)
	if err != nil {
		return nil, fmt.Errorf("%s:%d: %v", file, line, err)
	}
	return &Clause{Name: name, Src: src, E: e, File: file, Line: line}, nil
}

func (cs *Contracts) parseLines(file string, lines []srcLine, assumed bool) error {
	var curF *FuncContract
	var curS *StructContract
	i := 0
	errf := func(ln int, f string, a ...interface{}) error {
		return fmt.Errorf("%s:%d: %s", file, ln, fmt.Sprintf(f, a...))
	}
	for i < len(lines) {
		raw := lines[i]
		ln := raw.line
		t := strings.TrimSpace(raw.text)
		i++
		if t == "" || strings.HasPrefix(t, "#") {
			continue
		}
		// strip trailing comments introduced by " // "
		if k := strings.Index(t, " // "); k >= 0 && !strings.Contains(t, "<<<") {
			t = strings.TrimSpace(t[:k])
		}
		// raw blocks
		if strings.HasSuffix(t, "<<<") {
			head := strings.Fields(strings.TrimSuffix(t, "<<<"))
			var body []string
			for i < len(lines) && strings.TrimSpace(lines[i].text) != ">>>" {
				body = append(body, lines[i].text)
				i++
			}
			if i >= len(lines) {
				return errf(ln, "unterminated <<< block")
			}
			i++
			text := strings.Join(body, "\n")
			if len(head) == 0 {
				return errf(ln, "bad block header")
			}
			switch head[0] {
			case "smt":
				mode := ""
				if len(head) > 1 {
					mode = head[1]
				}
				cs.SMT = append(cs.SMT, RawSMT{mode, text})
			case "lemma":
				if len(head) < 2 {
					return errf(ln, "lemma needs a name")
				}
				mode := "int"
				if len(head) > 2 {
					mode = head[2]
				}
				cs.Lemmas = append(cs.Lemmas, &Lemma{Name: head[1], Mode: mode, Text: text, File: file})
			default:
				return errf(ln, "unknown block %q", head[0])
			}
			continue
		}
		// continuation lines
		for contLineEnd.MatchString(t) && i < len(lines) {
			nt := strings.TrimSpace(lines[i].text)
			if k := strings.Index(nt, " // "); k >= 0 {
				nt = strings.TrimSpace(nt[:k])
			}
			t = t + " " + nt
			i++
		}
		fields := strings.Fields(t)
		kw := fields[0]
		rest := strings.TrimSpace(strings.TrimPrefix(t, kw))
		switch kw {
		case "ghost":
			// ghost name sort [threadlocal] [= init]
			g := &GhostVar{}
			init := ""
			if k := strings.Index(rest, "="); k >= 0 {
				init = strings.TrimSpace(rest[k+1:])
				rest = strings.TrimSpace(rest[:k])
			}
			fs := strings.Fields(rest)
			if len(fs) < 2 {
				return errf(ln, "ghost needs name and sort")
			}
			g.Name, g.Sort, g.Init = fs[0], fs[1], init
			for _, f := range fs[2:] {
				if f == "threadlocal" {
					g.ThreadLocal = true
				}
			}
			if _, dup := cs.Ghosts[g.Name]; !dup {
				cs.GhostOrder = append(cs.GhostOrder, g.Name)
			}
			cs.Ghosts[g.Name] = g
			curF, curS = nil, nil
		case "specfn":
			open := strings.Index(rest, "(")
			if open < 0 {
				return errf(ln, "bad specfn")
			}
			depth, closeIdx := 0, -1
			for k := open; k < len(rest); k++ {
				if rest[k] == '(' {
					depth++
				} else if rest[k] == ')' {
					depth--
					if depth == 0 {
						closeIdx = k
						break
					}
				}
			}
			if closeIdx < 0 {
				return errf(ln, "bad specfn")
			}
			sf := &SpecFn{Name: strings.TrimSpace(rest[:open]), Ret: strings.TrimSpace(rest[closeIdx+1:])}
			for _, a := range splitTop(rest[open+1 : closeIdx]) {
				a = strings.TrimSpace(a)
				if a != "" {
					sf.Args = append(sf.Args, a)
				}
			}
			cs.SpecFns[sf.Name] = sf
			curF, curS = nil, nil
		case "ifaceequiv":
			fs := strings.Fields(rest)
			if len(fs) != 2 {
				return errf(ln, "ifaceequiv T1 T2")
			}
			cs.IfaceEquivs = append(cs.IfaceEquivs, [2]string{fs[0], fs[1]})
			curF, curS = nil, nil
		case "effectclass":
			k := strings.Index(rest, "=")
			if k < 0 {
				return errf(ln, "effectclass name = f1, f2")
			}
			if cs.EffectClasses == nil {
				cs.EffectClasses = map[string][]string{}
			}
			name := strings.TrimSpace(rest[:k])
			for _, f := range splitTop(rest[k+1:]) {
				cs.EffectClasses[name] = append(cs.EffectClasses[name], strings.TrimSpace(f))
			}
			curF, curS = nil, nil
		case "axiom":
			c, err := mkClause(file, ln, rest)
			if err != nil {
				return err
			}
			cs.Axioms = append(cs.Axioms, &Axiom{Name: c.Name, C: c})
			curF, curS = nil, nil
		case "struct":
			curF = nil
			curS = cs.Structs[rest]
			if curS == nil {
				curS = &StructContract{Type: rest, Protected: map[string][]string{}, Invariants: map[string][]*Clause{},
					Relies: map[string][]*Clause{}, Guarantees: map[string][]*Clause{}, Conds: map[string]string{}, GhostFields: map[string]string{}, File: file, Line: ln}
				cs.Structs[rest] = curS
			}
		case "func":
			curS = nil
			key := rest
			variant := ""
			if k := strings.Index(rest, " variant "); k >= 0 {
				key = strings.TrimSpace(rest[:k])
				variant = strings.TrimSpace(rest[k+9:])
			}
			curF = &FuncContract{Key: key, Mode: "int", Loops: map[int]*LoopContract{}, File: file, Line: ln, Assumed: assumed, Variant: variant}
			cs.Funcs[key] = append(cs.Funcs[key], curF)
		default:
			if curS != nil {
				if err := parseStructClause(curS, file, ln, kw, rest); err != nil {
					return err
				}
				continue
			}
			if curF != nil {
				if err := parseFuncClause(curF, file, ln, kw, rest); err != nil {
					return err
				}
				continue
			}
			return errf(ln, "unexpected %q outside a declaration", kw)
		}
	}
	return nil
}

func parseStructClause(s *StructContract, file string, ln int, kw, rest string) error {
	errf := func(f string, a ...interface{}) error {
		return fmt.Errorf("%s:%d: %s", file, ln, fmt.Sprintf(f, a...))
	}
	switch kw {
	case "protected_by":
		k := strings.Index(rest, ":")
		if k < 0 {
			return errf("protected_by m: fields")
		}
		m := strings.TrimSpace(rest[:k])
		for _, f := range strings.Split(rest[k+1:], ",") {
			s.Protected[m] = append(s.Protected[m], strings.TrimSpace(f))
		}
	case "invariant", "rely", "guarantee", "both":
		k := strings.Index(rest, ":")
		if k < 0 {
			return errf("%s m: expr", kw)
		}
		m := strings.TrimSpace(rest[:k])
		c, err := mkClause(file, ln, rest[k+1:])
		if err != nil {
			return err
		}
		switch kw {
		case "invariant":
			s.Invariants[m] = append(s.Invariants[m], c)
		case "rely":
			s.Relies[m] = append(s.Relies[m], c)
		case "guarantee":
			s.Guarantees[m] = append(s.Guarantees[m], c)
		case "both":
			s.Relies[m] = append(s.Relies[m], c)
			s.Guarantees[m] = append(s.Guarantees[m], c)
		}
	case "cond":
		fs := strings.Fields(rest)
		if len(fs) != 3 || fs[1] != "guards" {
			return errf("cond <field> guards <mutex>")
		}
		s.Conds[fs[0]] = fs[2]
	case "zeroinit":
		c, err := mkClause(file, ln, rest)
		if err != nil {
			return err
		}
		s.ZeroInit = append(s.ZeroInit, c)
	case "stable":
		// stable f, g writers F1, F2
		fs := rest
		var writers []string
		if k := strings.Index(rest, " writers "); k >= 0 {
			fs = rest[:k]
			for _, w := range splitTop(rest[k+9:]) {
				writers = append(writers, strings.TrimSpace(w))
			}
		}
		if s.Stable == nil {
			s.Stable = map[string][]string{}
		}
		for _, f := range strings.Split(fs, ",") {
			s.Stable[strings.TrimSpace(f)] = writers
		}
	case "ghostfield":
		fs := strings.Fields(rest)
		if len(fs) != 2 {
			return errf("ghostfield name sort")
		}
		s.GhostFields[fs[0]] = fs[1]
	case "on_release":
		k := strings.Index(rest, ":")
		if k < 0 {
			return errf("on_release m: [when e] set g = e")
		}
		or := &OnRelease{Mutex: strings.TrimSpace(rest[:k])}
		body := strings.TrimSpace(rest[k+1:])
		if strings.HasPrefix(body, "when ") {
			j := strings.Index(body, " set ")
			if j < 0 {
				return errf("on_release: missing set")
			}
			c, err := mkClause(file, ln, body[5:j])
			if err != nil {
				return err
			}
			or.When = c
			body = strings.TrimSpace(body[j+1:])
		}
		if !strings.HasPrefix(body, "set ") {
			return errf("on_release: missing set")
		}
		body = body[4:]
		j := strings.Index(body, "=")
		if j < 0 {
			return errf("on_release: set g = e")
		}
		or.Ghost = strings.TrimSpace(body[:j])
		c, err := mkClause(file, ln, body[j+1:])
		if err != nil {
			return err
		}
		or.Val = c
		s.OnRelease = append(s.OnRelease, or)
	default:
		return errf("unknown struct clause %q", kw)
	}
	return nil
}

func parseFuncClause(f *FuncContract, file string, ln int, kw, rest string) error {
	errf := func(fm string, a ...interface{}) error {
		return fmt.Errorf("%s:%d: %s", file, ln, fmt.Sprintf(fm, a...))
	}
	switch kw {
	case "mode":
		f.Mode = rest
		f.ModeSet = true
	case "uses":
		// uses <callee key> variant <name>
		i := strings.LastIndex(rest, " variant ")
		if i < 0 {
			return errf("uses: expected '<callee> variant <name>'")
		}
		if f.Uses == nil {
			f.Uses = map[string]string{}
		}
		f.Uses[strings.TrimSpace(rest[:i])] = strings.TrimSpace(rest[i+len(" variant "):])
	case "pure":
		f.Pure = true
	case "trusted":
		f.Trusted = true
	case "noframe":
		f.NoFrame = true
	case "borrows":
		f.Borrows = true
	case "nopanic":
		f.NoPanic = true
	case "deterministic":
		f.Deterministic = true
	case "requires", "ensures", "retassert":
		c, err := mkClause(file, ln, rest)
		if err != nil {
			return err
		}
		switch kw {
		case "requires":
			f.Requires = append(f.Requires, c)
		case "ensures":
			f.Ensures = append(f.Ensures, c)
		default:
			f.RetAsserts = append(f.RetAsserts, c)
		}
	case "modifies":
		for _, d := range splitTop(rest) {
			f.Modifies = append(f.Modifies, strings.TrimSpace(d))
		}
	case "consumes":
		for _, d := range strings.Split(rest, ",") {
			f.Consumes = append(f.Consumes, strings.TrimSpace(d))
		}
	case "noeffects":
		for _, d := range strings.Split(rest, ",") {
			f.NoEffects = append(f.NoEffects, strings.TrimSpace(d))
		}
	case "spawn_parent", "spawn_child":
		j := strings.Index(rest, "=")
		if j < 0 {
			return errf("%s ghost = expr", kw)
		}
		pr := [2]string{strings.TrimSpace(rest[:j]), strings.TrimSpace(rest[j+1:])}
		if _, err := ParseExpr(pr[1]); err != nil {
			return errf("%v", err)
		}
		if kw == "spawn_parent" {
			f.SpawnParent = append(f.SpawnParent, pr)
		} else {
			f.SpawnChild = append(f.SpawnChild, pr)
		}
	case "loop":
		k := strings.Index(rest, ":")
		if k < 0 {
			return errf("loop N: ...")
		}
		var lc *LoopContract
		if spec := strings.TrimSpace(rest[:k]); strings.HasPrefix(spec, "over ") {
			// loop over <range operand>: addressed by what the loop ranges over, not by position
			nm := strings.TrimSpace(spec[5:])
			if f.LoopsOver == nil {
				f.LoopsOver = map[string]*LoopContract{}
			}
			lc = f.LoopsOver[nm]
			if lc == nil {
				lc = &LoopContract{}
				f.LoopsOver[nm] = lc
			}
		} else {
			n, err := strconv.Atoi(spec)
			if err != nil {
				return errf("bad loop ordinal")
			}
			lc = f.Loops[n]
			if lc == nil {
				lc = &LoopContract{}
				f.Loops[n] = lc
			}
		}
		body := strings.TrimSpace(rest[k+1:])
		switch {
		case strings.HasPrefix(body, "invariant "):
			c, err := mkClause(file, ln, body[10:])
			if err != nil {
				return err
			}
			lc.Invariants = append(lc.Invariants, c)
		case strings.HasPrefix(body, "step "):
			body = body[5:]
			j := strings.Index(body, ":")
			if j < 0 {
				return errf("step name: when e ensures e")
			}
			st := &StepClause{Name: strings.TrimSpace(body[:j])}
			body = strings.TrimSpace(body[j+1:])
			if !strings.HasPrefix(body, "when ") {
				return errf("step: missing when")
			}
			e := strings.Index(body, " ensures ")
			if e < 0 {
				return errf("step: missing ensures")
			}
			w, err := mkClause(file, ln, body[5:e])
			if err != nil {
				return err
			}
			en, err := mkClause(file, ln, body[e+9:])
			if err != nil {
				return err
			}
			st.When, st.Ensures = w, en
			lc.Steps = append(lc.Steps, st)
		default:
			return errf("unknown loop clause")
		}
	case "callsite":
		k := strings.Index(rest, ":")
		if k < 0 {
			return errf("callsite callee: assert e")
		}
		callee := strings.TrimSpace(rest[:k])
		body := strings.TrimSpace(rest[k+1:])
		if !strings.HasPrefix(body, "assert ") {
			return errf("callsite: missing assert")
		}
		c, err := mkClause(file, ln, body[7:])
		if err != nil {
			return err
		}
		f.Callsites = append(f.Callsites, &CallsiteClause{Callee: callee, C: c})
	default:
		return errf("unknown func clause %q", kw)
	}
	return nil
}

// splitTop splits on commas not nested in parentheses.
func splitTop(s string) []string {
	var out []string
	depth, start := 0, 0
	for i, c := range s {
		switch c {
		case '(', '[':
			depth++
		case ')', ']':
			depth--
		case ',':
			if depth == 0 {
				out = append(out, s[start:i])
				start = i + 1
			}
		}
	}
	out = append(out, s[start:])
	return out
}

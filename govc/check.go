package main

// Property driver: obligations per property, baseline comparison, known findings, evidence.

import (
	"encoding/json"
	"flag"
	"fmt"
	"go/types"
	"os"
	"os/exec"
	"path/filepath"
	"regexp"
	"sort"
	"strconv"
	"strings"
	"time"

	"golang.org/x/tools/go/ssa"
)

type BoundedSpec struct {
	Name    string `json:"name"`
	Bound   string `json:"bound"`            // human description of the bound
	Pkg     string `json:"pkg"`              // package dir relative to /repo
	Test    string `json:"test"`             // test file under /verif/bounded to inject by overlay
	Run     string `json:"run"`              // -run pattern
	Env     map[string]string `json:"env"`   // extra env (quick)
	EnvThorough map[string]string `json:"env_thorough"`
}

type PropSpec struct {
	Title       string        `json:"title"`
	Packages    []string      `json:"packages"`
	Functions   []string      `json:"functions"`
	Lemmas      []string      `json:"lemmas"`
	Bounded     []BoundedSpec `json:"bounded"`
	Assumptions []string      `json:"assumptions"`
	Undecided   []string      `json:"undecided"` // parts of the statement this check does not decide
	Replay      map[string]string `json:"replay"` // obligation group regexp -> replay harness name
	// ClaimOnly: function key -> names of the post / ret / step / callsite / mon clauses of that function that
	// express THIS property (a function shared by several properties carries clauses of all of them).
	// Supporting obligations (pre, invariants, safety, frames, locks) are always claimed.
	ClaimOnly map[string][]string `json:"claim_only"`
	// ClaimStatic: substrings of the package-wide static obligations (static#frame:stable:<field>,
	// static#iface-equiv:<types>) this property's argument uses; the others belong to other properties.
	ClaimStatic []string `json:"claim_static"`
	// SafetyTotal: functions whose crash-freedom IS the property (e.g. "parsing never crashes"): every
	// index / slice / nil / assertion / division obligation generated for them must discharge, also one
	// that did not exist when the baseline was recorded (a newly written unsafe operation). Groups that
	// were undecided when the baseline was recorded are listed in the baseline file with a leading "?".
	SafetyTotal []string `json:"safety_total"`
}

func (ps *PropSpec) safetyTotal(group string) bool {
	i := strings.Index(group, "#safe:")
	if i < 0 || strings.Contains(group, "#safe:ovf") {
		return false
	}
	fn := group[:i]
	if j := strings.Index(fn, "/"); j >= 0 {
		fn = fn[:j]
	}
	for _, k := range ps.SafetyTotal {
		if k == fn {
			return true
		}
	}
	return false
}

// claimable reports whether an obligation group belongs to the property being rebaselined.
func (ps *PropSpec) claimable(group string) bool {
	i := strings.Index(group, "#")
	if i < 0 {
		return true
	}
	if strings.HasPrefix(group, "static#") {
		for _, c := range ps.ClaimStatic {
			if strings.Contains(group, c) {
				return true
			}
		}
		return false
	}
	fn, rest := group[:i], group[i+1:]
	variant := ""
	if j := strings.Index(fn, "/"); j >= 0 && !strings.HasPrefix(fn, "lemma") {
		fn, variant = fn[:j], fn[j+1:] // contract variant
	}
	only, ok := ps.ClaimOnly[fn]
	if !ok {
		return true
	}
	for _, o := range only {
		if variant != "" && o == "-variant:"+variant {
			return false // a contract variant that serves another property
		}
	}
	kind := rest
	name := ""
	if j := strings.Index(rest, ":"); j >= 0 {
		kind, name = rest[:j], rest[j+1:]
	}
	switch kind {
	case "post", "ret", "step", "callsite", "mon":
	case "frame":
		if !strings.HasPrefix(name, "noeffects:") && name != "det" {
			return true
		}
	default:
		return true
	}
	if j := strings.LastIndex(name, "/"); j >= 0 && kind != "post" {
		name = name[j+1:]
	}
	for _, o := range only {
		if o == name {
			return true
		}
	}
	return false
}

type Finding struct {
	Kind     string // finding | fixed
	Property string
	Group    string // obligation group (for finding)
	Text     string
}

func loadProps() (map[string]*PropSpec, error) {
	data, err := os.ReadFile(filepath.Join(verifDir, "props.json"))
	if err != nil {
		return nil, err
	}
	var m map[string]*PropSpec
	if err := json.Unmarshal(data, &m); err != nil {
		return nil, err
	}
	return m, nil
}

func loadBaseline(id string) ([]string, error) {
	data, err := os.ReadFile(filepath.Join(verifDir, "baseline", id+".txt"))
	if err != nil {
		if os.IsNotExist(err) {
			return nil, nil
		}
		return nil, err
	}
	var out []string
	for _, l := range strings.Split(string(data), "\n") {
		l = strings.TrimSpace(l)
		if l == "" || strings.HasPrefix(l, "# ") || strings.HasPrefix(l, "?") {
			continue
		}
		out = append(out, l)
	}
	return out, nil
}

// loadKnownUndecided returns the safety groups recorded as undecided ("? group" lines) in a baseline.
func loadKnownUndecided(id string) map[string]bool {
	out := map[string]bool{}
	data, err := os.ReadFile(filepath.Join(verifDir, "baseline", id+".txt"))
	if err != nil {
		return out
	}
	for _, l := range strings.Split(string(data), "\n") {
		l = strings.TrimSpace(l)
		if strings.HasPrefix(l, "?") {
			out[strings.TrimSpace(l[1:])] = true
		}
	}
	return out
}

var findingRe = regexp.MustCompile(`^(finding|fixed):\s+property=(\S+)\s+(?:obligation=(\S+)\s+)?(.*)$`)

func loadFindings() ([]Finding, error) {
	data, err := os.ReadFile(filepath.Join(verifDir, "known_findings.txt"))
	if err != nil {
		if os.IsNotExist(err) {
			return nil, nil
		}
		return nil, err
	}
	var out []Finding
	for _, l := range strings.Split(string(data), "\n") {
		l = strings.TrimSpace(l)
		if l == "" || strings.HasPrefix(l, "#") {
			continue
		}
		m := findingRe.FindStringSubmatch(l)
		if m == nil {
			continue
		}
		out = append(out, Finding{Kind: m[1], Property: m[2], Group: m[3], Text: m[4]})
	}
	return out, nil
}

type groupStatus struct {
	name       string
	obls       []*Obligation
	discharged bool
	stale      string
}

type evidence struct {
	PropertyID string                 `json:"property_id"`
	Tier       string                 `json:"tier"`
	Seed       int                    `json:"seed"`
	Level      string                 `json:"level"`
	Coverage   map[string]interface{} `json:"coverage"`
	Assumptions []string              `json:"assumptions"`
	WallS      float64                `json:"wall_s"`
	Violations int                    `json:"violations"`
}

func cmdCheck(args []string) int {
	fs := flag.NewFlagSet("check", flag.ExitOnError)
	tier := fs.String("tier", "", "quick|thorough")
	rebase := fs.Bool("rebaseline", false, "print the obligation groups that discharge (for baseline files)")
	verbose := fs.Bool("v", false, "verbose")
	overlayFile := fs.String("overlay", "", "JSON map: path under /repo -> replacement file (selftest mutants)")
	noEvidence := fs.Bool("no-evidence", false, "do not write the evidence file")
	outOverride := fs.String("out", "", "output directory (default /verif/out/<id>)")
	var id string
	var rest []string
	for _, a := range args {
		if !strings.HasPrefix(a, "-") && id == "" {
			id = a
		} else {
			rest = append(rest, a)
		}
	}
	fs.Parse(rest)
	if *tier == "" {
		*tier = os.Getenv("VERIF_TIER")
	}
	if *tier == "" {
		*tier = "quick"
	}
	seed, _ := strconv.Atoi(os.Getenv("VERIF_SEED"))
	t0 := time.Now()
	props, err := loadProps()
	if err != nil {
		fmt.Fprintln(os.Stderr, "props.json:", err)
		return 2
	}
	ps := props[id]
	if ps == nil {
		fmt.Fprintf(os.Stderr, "unknown property %q\n", id)
		return 2
	}
	baseline, err := loadBaseline(id)
	if err != nil {
		fmt.Fprintln(os.Stderr, "baseline:", err)
		return 2
	}
	findings, err := loadFindings()
	if err != nil {
		fmt.Fprintln(os.Stderr, "known_findings:", err)
		return 2
	}
	timeout := 20
	if *tier == "thorough" {
		timeout = 120
	}
	// one scratch directory per run (two runs of one check may overlap); directories left by runs
	// that are no longer alive are removed, a clean run removes its own at the end
	outDir := filepath.Join(verifDir, "out", fmt.Sprintf("%s.%d", id, os.Getpid()))
	if *outOverride != "" {
		outDir = *outOverride
	} else {
		old, _ := filepath.Glob(filepath.Join(verifDir, "out", id+".*"))
		old = append(old, filepath.Join(verifDir, "out", id))
		for _, d := range old {
			pid := strings.TrimPrefix(filepath.Ext(d), ".")
			if pid != "" {
				if _, err := os.Stat(filepath.Join("/proc", pid)); err == nil {
					continue // that run is still alive
				}
			}
			os.RemoveAll(d)
		}
	}
	var overlay map[string][]byte
	if *overlayFile != "" {
		data, err := os.ReadFile(*overlayFile)
		if err != nil {
			fmt.Fprintln(os.Stderr, "overlay:", err)
			return 2
		}
		if err := json.Unmarshal(data, &extraOverlay); err != nil {
			fmt.Fprintln(os.Stderr, "overlay:", err)
			return 2
		}
		overlay = map[string][]byte{}
		for orig, repl := range extraOverlay {
			c, err := os.ReadFile(repl)
			if err != nil {
				fmt.Fprintln(os.Stderr, "overlay:", err)
				return 2
			}
			overlay[orig] = c
		}
	}
	os.RemoveAll(outDir)
	os.MkdirAll(filepath.Join(outDir, "replay"), 0o755)

	internalErr := func(f string, a ...interface{}) int {
		fmt.Fprintf(os.Stderr, "INTERNAL: "+f+"\n", a...)
		return 2
	}

	w, lerr := LoadWorld(repoDir, ps.Packages, overlay)
	var loadFailure string
	if lerr != nil {
		// the tree does not load: every baseline group is undecidable. This is reported as an internal
		// error (the brief's mutants compile), not as a property violation.
		return internalErr("cannot load /repo packages %v: %v", ps.Packages, lerr)
	}
	if err := w.LoadAssumed(filepath.Join(verifDir, "contracts", "assumed")); err != nil {
		return internalErr("assumed contracts: %v", err)
	}
	_ = loadFailure

	var items []*workItem
	var encs []*Enc
	stale := map[string]string{} // function key -> reason
	fnCount := 0
	for _, k := range ps.Functions {
		its, es, err := encodeFunc(w, k)
		if err != nil {
			stale[k] = err.Error()
			continue
		}
		fnCount++
		items = append(items, its...)
		encs = append(encs, es...)
	}
	// lemmas
	for _, ln := range ps.Lemmas {
		var lem *Lemma
		for _, l := range w.CS.Lemmas {
			if l.Name == ln {
				lem = l
			}
		}
		if lem == nil {
			stale["lemma:"+ln] = "lemma not found in contract files"
			continue
		}
		mode := ModeInt
		if lem.Mode == "bv" {
			mode = ModeBV
		}
		st := NewSortTable(mode)
		var b strings.Builder
		b.WriteString("; lemma " + lem.Name + "\n")
		var raws strings.Builder
		for _, r := range selectRaw(w.CS.SMT, mode.String(), lem.Text) {
			raws.WriteString(r + "\n")
		}
		b.WriteString(st.prelude(raws.String() + lem.Text))
		b.WriteString(raws.String())
		b.WriteString(lem.Text + "\n(check-sat)\n")
		o := &Obligation{Fn: "lemma", Kind: "lemma", Name: "lemma#" + lem.Name, Group: "lemma#" + lem.Name, Pos: lem.File, Src: "lemma " + lem.Name}
		items = append(items, &workItem{o: o, script: b.String()})
	}
	items = append(items, stableFieldObligations(w)...)
	items = append(items, ifaceEquivObligations(w)...)
	for _, k := range ps.Functions {
		items = append(items, noEffectObligations(w, k)...)
		items = append(items, determinismObligations(w, k)...)
	}
	if len(items) == 0 && len(ps.Bounded) == 0 && len(stale) == 0 {
		return internalErr("no obligations generated for %s", id)
	}
	if !*rebase {
		inBase0 := map[string]bool{}
		for _, bg := range baseline {
			inBase0[bg] = true
		}
		for _, f := range findings {
			if f.Property == id {
				inBase0[f.Group] = true
			}
		}
		knownUnd0 := loadKnownUndecided(id)
		for _, it := range items {
			if !inBase0[it.o.Group] && !(ps.safetyTotal(it.o.Group) && !knownUnd0[it.o.Group]) {
				it.quickOnly = true
			}
		}
	}
	for _, it := range items {
		// overflow side obligations are never claimed (mode int treats machine integers as mathematical):
		// one short attempt each, so that they do not load the machine while the others are solved
		if strings.Contains(it.o.Group, "#safe:ovf") {
			it.quickOnly = true
		}
	}
	solveAll(items, outDir, timeout, 12)
	// A claimed obligation that ran out of time (no definite answer) is tried again, alone and with
	// three times the time: on a machine loaded by other jobs a goal that needs a second can starve.
	// Only a handful is retried - many undecided goals mean the code changed, not that the machine is busy.
	if !*rebase {
		var again []*workItem
		for _, it := range items {
			if it.quickOnly || it.o.Static || it.o.Cover {
				continue
			}
			if r := it.o.Result; r == "timeout" || r == "unknown" || r == "error" || r == "cancelled" {
				again = append(again, it)
			}
		}
		if len(again) > 0 && len(again) <= 8 {
			solveAll(again, outDir, timeout*3, 2)
		}
	}

	// group results
	groups := map[string]*groupStatus{}
	var order []string
	var solverMs int64
	backends := map[string]int{}
	coverFail := []string{}
	for _, it := range items {
		o := it.o
		solverMs += o.Ms
		if o.Cover {
			if o.Result == "unsat" {
				coverFail = append(coverFail, o.Name)
			}
			continue
		}
		g := groups[o.Group]
		if g == nil {
			g = &groupStatus{name: o.Group, discharged: true}
			groups[o.Group] = g
			order = append(order, o.Group)
		}
		g.obls = append(g.obls, o)
		if o.Result != "unsat" {
			g.discharged = false
		} else {
			backends[o.Backend]++
		}
	}
	if *rebase {
		if len(coverFail) > 0 {
			return internalErr("vacuity guard: assumptions are contradictory at %v", coverFail)
		}
		sort.Strings(order)
		for _, gname := range order {
			g := groups[gname]
			if g.discharged {
				var maxMs int64
				for _, o := range g.obls {
					if o.Ms > maxMs {
						maxMs = o.Ms
					}
				}
				prev := false
				for _, bg := range baseline {
					if bg == gname {
						prev = true // claimed before and still discharging: a slow run under load does not drop it
					}
				}
				if (prev || maxMs*3 <= int64(timeout)*1000) && !strings.Contains(gname, "#safe:ovf") && ps.claimable(gname) {
					fmt.Println(gname)
				}
			} else if ps.safetyTotal(gname) {
				fmt.Println("? " + gname)
			}
			if strings.Contains(gname, "#inv-entry:") || strings.Contains(gname, "#inv-keep:") {
				claimed := false
				if g.discharged {
					var mx int64
					for _, o := range g.obls {
						if o.Ms > mx {
							mx = o.Ms
						}
					}
					claimed = mx*3 <= int64(timeout)*1000
					for _, bg := range baseline {
						if bg == gname {
							claimed = true
						}
					}
				}
				if !claimed {
					fmt.Fprintf(os.Stderr, "UNCLAIMED INVARIANT OBLIGATION (everything proved after this loop rests on it): %s discharged=%v\n", gname, g.discharged)
				}
			}
		}
		return 0
	}

	// bounded stand-ins
	var boundedReports []map[string]interface{}
	violations := 0
	var vioLines, boundedVio, boundedKnown []string
	for _, bs := range ps.Bounded {
		rep, ok := runBounded(id, bs, *tier, outDir)
		boundedReports = append(boundedReports, rep)
		if !ok {
			known := false
			for _, f := range findings {
				if f.Kind == "finding" && f.Property == id && f.Group == "bounded:"+bs.Name {
					boundedKnown = append(boundedKnown, fmt.Sprintf("KNOWN-FINDING: property=%s %s (bounded:%s)", id, f.Text, bs.Name))
					rep["known_finding"] = true
					known = true
				}
			}
			if !known {
				violations++
				boundedVio = append(boundedVio, fmt.Sprintf("VIOLATION property=%s replay=%s", id, rep["replay"]))
			}
		}
	}

	// compare with baseline
	isKnown := func(group string) *Finding {
		for i := range findings {
			f := &findings[i]
			if f.Kind == "finding" && f.Property == id && f.Group == group {
				return f
			}
		}
		return nil
	}
	nObl, nDis := 0, 0
	var undecided, knownLines []string
	reported := map[string]bool{}
	report := func(group string, g *groupStatus, reason string) {
		if reported[group] {
			return
		}
		reported[group] = true
		if f := isKnown(group); f != nil {
			knownLines = append(knownLines, fmt.Sprintf("KNOWN-FINDING: property=%s %s (%s)", id, f.Text, group))
			return
		}
		// replay file
		rf := filepath.Join(outDir, "replay", sanitizeFile(group)+".txt")
		var b strings.Builder
		fmt.Fprintf(&b, "property: %s\nfailed obligation group: %s\nreason: %s\n", id, group, reason)
		replayed := false
		if g != nil {
			for _, o := range g.obls {
				if o.Result == "unsat" {
					continue
				}
				fmt.Fprintf(&b, "\nobligation: %s\nposition: %s\nclause: %s\nsolver: %s result: %s (%d ms)\nscript: %s\nsolver output:\n%s\n", o.Name, o.Pos, o.Src, o.Backend, o.Result, o.Ms, o.Script, o.Model)
			}
			if h := replayHarness(ps, group); h != "" {
				out, failed := runReplay(id, h, g, outDir)
				fmt.Fprintf(&b, "\nreplay harness %s on the real code:\n%s\n", h, out)
				replayed = failed
			}
		}
		os.WriteFile(rf, []byte(b.String()), 0o644)
		violations++
		line := fmt.Sprintf("VIOLATION property=%s replay=%s", id, rf)
		if !replayed {
			line += " no-failing-input-found"
		}
		vioLines = append(vioLines, line)
	}
	for _, bg := range baseline {
		// stale function?
		fnk := bg
		if i := strings.Index(bg, "#"); i >= 0 {
			fnk = bg[:i]
		}
		if j := strings.Index(fnk, "/"); j >= 0 && !strings.HasPrefix(fnk, "lemma") {
			// variant suffix
			if _, ok := stale[fnk[:j]]; ok {
				fnk = fnk[:j]
			}
		}
		nObl++
		if why, ok := stale[fnk]; ok {
			report(bg, nil, "contract is stale: "+why)
			continue
		}
		if strings.HasPrefix(bg, "lemma#") {
			if why, ok := stale["lemma:"+strings.TrimPrefix(bg, "lemma#")]; ok {
				report(bg, nil, why)
				continue
			}
		}
		g := groups[bg]
		if g == nil {
			if strings.Contains(bg, "#safe:") {
				// the operations this safety group was about no longer exist: nothing can go wrong there
				nDis++
				continue
			}
			report(bg, nil, "no obligation is generated for this group any more (contract or code changed shape)")
			continue
		}
		if g.discharged {
			nDis++
			continue
		}
		report(bg, g, "an obligation of this group no longer discharges")
	}
	// safety-total functions: a failing safety group that the baseline does not know is a new unsafe operation
	{
		inB := map[string]bool{}
		for _, bg := range baseline {
			inB[bg] = true
		}
		knownUnd := loadKnownUndecided(id)
		for _, gname := range order {
			if ps.safetyTotal(gname) && !inB[gname] && !knownUnd[gname] && !groups[gname].discharged {
				nObl++
				report(gname, groups[gname], "a safety obligation that did not exist when the baseline was recorded does not discharge (a newly written operation that may panic)")
			}
		}
	}
	// findings that are listed but whose obligation is not in the baseline still print when they fail
	for _, f := range findings {
		if f.Kind != "finding" || f.Property != id || reported[f.Group] {
			continue
		}
		g := groups[f.Group]
		if g != nil && !g.discharged {
			knownLines = append(knownLines, fmt.Sprintf("KNOWN-FINDING: property=%s %s (%s)", id, f.Text, f.Group))
			reported[f.Group] = true
		}
	}
	inBase := map[string]bool{}
	for _, bg := range baseline {
		inBase[bg] = true
	}
	extraDis := 0
	for _, gname := range order {
		if inBase[gname] || reported[gname] {
			continue
		}
		if groups[gname].discharged {
			extraDis++
		} else {
			undecided = append(undecided, gname)
		}
	}

	// evidence
	var fnList []string
	for _, k := range ps.Functions {
		if _, bad := stale[k]; !bad {
			fnList = append(fnList, k)
		}
	}
	trusted := map[string]bool{}
	notes := map[string]bool{}
	for _, e := range encs {
		for k := range e.usedSpecs {
			trusted["assumed contract: "+k] = true
		}
		for n := range e.notes {
			notes[n] = true
		}
	}
	tb := []string{"govc (this task's VC generator: SSA->SMT semantics, lockset and frame analyses)", "golang.org/x/tools go/ssa v0.29.0 lowering", "z3 5.1.0 / z3 4.8.12 / cvc5 1.0.3"}
	for k := range trusted {
		tb = append(tb, k)
	}
	sort.Strings(tb[3:])
	var noteList []string
	for n := range notes {
		noteList = append(noteList, n)
	}
	sort.Strings(noteList)
	var samples []interface{}
	for i, it := range items {
		if i%maxInt(1, len(items)/6) == 0 && !it.o.Cover {
			samples = append(samples, map[string]interface{}{"obligation": it.o.Name, "clause": it.o.Src, "position": it.o.Pos, "result": it.o.Result, "backend": it.o.Backend, "ms": it.o.Ms, "smt_bytes": len(it.script)})
		}
	}
	var perObl []map[string]interface{}
	for _, it := range items {
		o := it.o
		if o.Cover {
			continue
		}
		perObl = append(perObl, map[string]interface{}{"name": o.Name, "kind": o.Kind, "backend": o.Backend, "ms": o.Ms, "result": o.Result})
	}
	sort.Strings(undecided)
	ev := evidence{PropertyID: id, Tier: *tier, Seed: seed, Level: "proof", WallS: time.Since(t0).Seconds(), Violations: violations}
	ev.Coverage = map[string]interface{}{
		"obligations":              nObl,
		"discharged":               nDis,
		"checker_cmd":              fmt.Sprintf("bin/govc check %s --tier %s  (per obligation: z3-new -smt2 | cvc5 | z3 on out/%s/*.smt2)", id, *tier, id),
		"trusted_base":             tb,
		"functions_under_contract": fnList,
		"obligation_groups_claimed": baseline,
		"generated_obligations":    len(perObl),
		"generated_discharged":     countUnsat(perObl),
		"extra_groups_discharged_not_claimed": extraDis,
		"undecided_groups":         undecided,
		"known_findings_reported":  append(append([]string{}, knownLines...), boundedKnown...),
		"per_obligation":           perObl,
		"solver_ms_total":          solverMs,
		"backends":                 backends,
		"bounded":                  boundedReports,
		"abstractions":             noteList,
		"not_decided":              ps.Undecided,
		"samples":                  samples,
		"stale":                    stale,
	}
	// thorough tier: the must-fail / must-pass corpus of this property runs against the machinery itself
	selftestBad := 0
	if *tier == "thorough" && *overlayFile == "" {
		rc := selftest([]string{id})
		var lines []string
		for _, l := range selftestLines {
			if i := strings.Index(l, "\n"); i >= 0 {
				l = l[:i]
			}
			lines = append(lines, l)
		}
		sort.Strings(lines)
		ev.Coverage["selftest"] = map[string]interface{}{
			"what":  "every stored property-breaking change of this property (seeded by sub-agents, canaries of repaired defects, hand-written mutants) must produce a VIOLATION; every stored behaviour-preserving edit must pass",
			"cases": len(lines), "wrong": rc != 0, "results": lines,
		}
		if rc != 0 {
			selftestBad = 1
		}
	}
	ev.Assumptions = append([]string{}, ps.Assumptions...)
	for k := range trusted {
		ev.Assumptions = append(ev.Assumptions, k)
	}
	sort.Strings(ev.Assumptions)
	if !*noEvidence {
		os.MkdirAll(filepath.Join(verifDir, "evidence"), 0o755)
		data, _ := json.MarshalIndent(ev, "", " ")
		os.WriteFile(filepath.Join(verifDir, "evidence", id+".json"), data, 0o644)
	}

	for _, l := range append(knownLines, boundedKnown...) {
		fmt.Println(l)
	}
	for _, l := range append(vioLines, boundedVio...) {
		fmt.Println(l)
	}
	fmt.Printf("%s %s: %d/%d claimed obligation groups discharged (%d obligations generated, %d unsat), %d undecided groups, %d bounded stand-ins, %.1fs\n",
		id, *tier, nDis, nObl, len(perObl), countUnsat(perObl), len(undecided), len(boundedReports), time.Since(t0).Seconds())
	if *verbose {
		for _, u := range undecided {
			fmt.Println("  undecided:", u)
		}
	}
	// keep the scripts of what did not discharge (they are referenced by the replay files); the
	// scripts of discharged obligations are regenerated by every run and only take disk space
	for _, it := range items {
		if it.o.Script != "" && (it.o.Result == "unsat" || it.o.Cover) {
			os.Remove(it.o.Script)
		}
	}
	if violations > 0 {
		return 1
	}
	if *outOverride == "" && len(undecided) == 0 {
		os.RemoveAll(outDir)
	}
	if selftestBad > 0 {
		return internalErr("selftest corpus of %s: a stored property-breaking change was not reported, or a harmless edit was", id)
	}
	if len(coverFail) > 0 {
		// nothing failed, yet some path's assumptions are contradictory: the harness is broken, not the code
		return internalErr("vacuity guard: assumptions are contradictory at %v", coverFail)
	}
	if nObl == 0 && len(boundedReports) == 0 {
		return internalErr("nothing is claimed for %s", id)
	}
	return 0
}

func maxInt(a, b int) int {
	if a > b {
		return a
	}
	return b
}

func countUnsat(per []map[string]interface{}) int {
	n := 0
	for _, p := range per {
		if p["result"] == "unsat" {
			n++
		}
	}
	return n
}

func replayHarness(ps *PropSpec, group string) string {
	for pat, h := range ps.Replay {
		if ok, _ := regexp.MatchString(pat, group); ok {
			return h
		}
	}
	return ""
}

// goTestOverlay runs `go test` in a /repo package with an extra test file injected by overlay.
func goTestOverlay(pkgDir, testFile, injectedName, run string, env map[string]string, timeout string) (string, error) {
	dst := filepath.Join(repoDir, pkgDir, injectedName)
	repl := map[string]string{dst: testFile}
	for k, v := range extraOverlay {
		repl[k] = v
	}
	ov := map[string]interface{}{"Replace": repl}
	tmp, err := os.CreateTemp("", "overlay*.json")
	if err != nil {
		return "", err
	}
	defer os.Remove(tmp.Name())
	data, _ := json.Marshal(ov)
	tmp.Write(data)
	tmp.Close()
	cmd := exec.Command("go", "test", "-overlay", tmp.Name(), "-vet=off", "-count=1", "-timeout", timeout, "-run", run, ".")
	cmd.Dir = filepath.Join(repoDir, pkgDir)
	cmd.Env = append(os.Environ(), "GOFLAGS=-mod=mod", "GOPROXY=off", "GOSUMDB=off", "GOTOOLCHAIN=local")
	for k, v := range env {
		cmd.Env = append(cmd.Env, k+"="+v)
	}
	out, err := cmd.CombinedOutput()
	return string(out), err
}

func runBounded(id string, bs BoundedSpec, tier, outDir string) (map[string]interface{}, bool) {
	env := map[string]string{}
	for k, v := range bs.Env {
		env[k] = v
	}
	if tier == "thorough" {
		for k, v := range bs.EnvThorough {
			env[k] = v
		}
	}
	statsFile := filepath.Join(outDir, "bounded-"+bs.Name+".json")
	env["VERIF_BOUNDED_STATS"] = statsFile
	t0 := time.Now()
	out, err := goTestOverlay(bs.Pkg, filepath.Join(verifDir, "bounded", bs.Test), "zz_verif_bounded_test.go", bs.Run, env, "20m")
	rep := map[string]interface{}{"name": bs.Name, "label": "bounded", "bound": bs.Bound, "wall_s": time.Since(t0).Seconds()}
	if data, e := os.ReadFile(statsFile); e == nil {
		var st map[string]interface{}
		if json.Unmarshal(data, &st) == nil {
			for k, v := range st {
				rep[k] = v
			}
		}
	}
	if err != nil {
		rf := filepath.Join(outDir, "replay", "bounded-"+bs.Name+".txt")
		os.WriteFile(rf, []byte(fmt.Sprintf("property: %s\nbounded stand-in %s (%s) failed on the real code\n\n%s\n", id, bs.Name, bs.Bound, out)), 0o644)
		rep["replay"] = rf
		rep["result"] = "failed"
		return rep, false
	}
	rep["result"] = "passed"
	return rep, true
}

// runReplay runs a replay harness (a Go test under /verif/replay) against the real code.
// Returns the output and whether the harness demonstrated a failing input.
func runReplay(id, harness string, g *groupStatus, outDir string) (string, bool) {
	parts := strings.SplitN(harness, ":", 3) // pkgdir:file:TestName
	if len(parts) != 3 {
		return "bad harness spec " + harness, false
	}
	env := map[string]string{}
	// pass the solver's model values (if any)
	for _, o := range g.obls {
		if o.Result == "sat" && o.Model != "" {
			env["VERIF_MODEL"] = o.Model
			break
		}
	}
	out, err := goTestOverlay(parts[0], filepath.Join(verifDir, "replay", parts[1]), "zz_verif_replay_test.go", parts[2], env, "120s")
	return out, err != nil
}

var extraOverlay map[string]string

func cmdSelftest(args []string) int { return selftest(args) }

// stableFieldObligations: fields declared `stable` in a struct contract are stored to only by their
// listed writers (static scan over every function of the loaded repository packages).
func stableFieldObligations(w *World) []*workItem {
	var out []*workItem
	var tns []string
	for tn, sc := range w.CS.Structs {
		if len(sc.Stable) > 0 {
			tns = append(tns, tn)
		}
	}
	sort.Strings(tns)
	for _, tn := range tns {
		sc := w.CS.Structs[tn]
		var fields []string
		for f := range sc.Stable {
			fields = append(fields, f)
		}
		sort.Strings(fields)
		for _, f := range fields {
			writers := map[string]bool{}
			for _, wr := range sc.Stable[f] {
				writers[wr] = true
			}
			var bad []string
			seen := false
			for key, fn := range w.FnByKey {
				for _, b := range fn.Blocks {
					for _, ins := range b.Instrs {
						st, ok := ins.(*ssa.Store)
						if !ok {
							continue
						}
						fa, ok := st.Addr.(*ssa.FieldAddr)
						if !ok {
							continue
						}
						pt, ok := fa.X.Type().Underlying().(*types.Pointer)
						if !ok || typeStr(pt.Elem()) != tn {
							continue
						}
						su, ok := pt.Elem().Underlying().(*types.Struct)
						if !ok || su.Field(fa.Field).Name() != f {
							continue
						}
						if al, fresh := fa.X.(*ssa.Alloc); fresh && al.Comment == "complit" {
							// field initialisers of a composite literal: construction of a new object,
							// not a write to an existing one (stores to a named local still count)
							continue
						}
						seen = true
						if !writers[key] {
							bad = append(bad, key+" at "+w.Prog.Fset.Position(st.Pos()).String())
						}
					}
				}
			}
			if !seen && w.SPkgs != nil {
				// the struct's package may not be loaded for this property: nothing to check
				found := false
				pkgName := tn
				if i := strings.Index(tn, "."); i >= 0 {
					pkgName = tn[:i]
				}
				for key := range w.FnByKey {
					if writers[key] || strings.HasPrefix(key, pkgName+".") || strings.HasPrefix(key, "(*"+pkgName+".") || strings.HasPrefix(key, "("+pkgName+".") {
						found = true // the package that owns the struct is loaded: an absence of stores is a result
					}
				}
				if !found {
					continue
				}
			}
			sort.Strings(bad)
			name := "static#frame:stable:" + tn + "." + f
			o := &Obligation{Fn: "static", Kind: "frame:stable", Name: name, Group: name, Static: true, StaticOK: len(bad) == 0, Src: "stable " + f + " writers " + strings.Join(sc.Stable[f], ", ")}
			if len(bad) > 0 {
				o.Model = "stores outside the declared writers: " + strings.Join(bad, "; ")
			}
			out = append(out, &workItem{o: o})
		}
	}
	return out
}

// noEffectObligations: a function with `noeffects <class>` reaches, through static calls inside the
// repository, no function of that effect class. Interface and dynamic calls are not followed (noted).
func noEffectObligations(w *World, key string) []*workItem {
	var out []*workItem
	fn := w.FnByKey[key]
	if fn == nil {
		return nil
	}
	for _, fc := range w.contractsFor(key) {
		for _, class := range fc.NoEffects {
			forbidden := map[string]bool{}
			for _, f := range w.CS.EffectClasses[class] {
				forbidden[f] = true
			}
			seen := map[*ssa.Function]bool{}
			var bad []string
			dyn := 0
			var visit func(f *ssa.Function, path string)
			visit = func(f *ssa.Function, path string) {
				if seen[f] {
					return
				}
				seen[f] = true
				for _, b := range f.Blocks {
					for _, ins := range b.Instrs {
						var cc *ssa.CallCommon
						switch c := ins.(type) {
						case *ssa.Call:
							cc = c.Common()
						case *ssa.Defer:
							cc = c.Common()
						case *ssa.Go:
							cc = c.Common()
						case *ssa.MakeClosure:
							if cf, ok := c.Fn.(*ssa.Function); ok {
								visit(cf, path+" > "+fnKey(cf))
							}
							continue
						default:
							continue
						}
						if cc.IsInvoke() {
							k := ifaceMethodKey(cc.Value.Type(), cc.Method)
							if forbidden[k] {
								bad = append(bad, path+" > "+k)
							}
							dyn++
							continue
						}
						callee, ok := cc.Value.(*ssa.Function)
						if !ok {
							dyn++
							continue
						}
						k := fnKey(callee)
						if forbidden[k] {
							bad = append(bad, path+" > "+k+" at "+w.Prog.Fset.Position(ins.Pos()).String())
							continue
						}
						if inRepo(callee) && len(callee.Blocks) > 0 {
							visit(callee, path+" > "+k)
						}
					}
				}
			}
			visit(fn, key)
			name := key + "#frame:noeffects:" + class
			o := &Obligation{Fn: key, Kind: "frame:noeffects", Name: name, Group: name, Static: true, StaticOK: len(bad) == 0,
				Src: "noeffects " + class, Note: fmt.Sprintf("%d interface/dynamic calls not followed", dyn)}
			if len(bad) > 0 {
				sort.Strings(bad)
				o.Model = "forbidden effects reachable: " + strings.Join(bad, "; ")
			}
			out = append(out, &workItem{o: o})
		}
	}
	return out
}

// ifaceEquivObligations: `ifaceequiv A B` - interface types A and B have the same method set, so a type
// assertion to A succeeds exactly for the dynamic types that implement B.
func ifaceEquivObligations(w *World) []*workItem {
	var out []*workItem
	for _, pr := range w.CS.IfaceEquivs {
		e := &Enc{w: w, st: NewSortTable(ModeInt)}
		a, b := e.resolveType(pr[0]), e.resolveType(pr[1])
		name := "static#iface-equiv:" + pr[0] + "=" + pr[1]
		o := &Obligation{Fn: "static", Kind: "iface-equiv", Name: name, Group: name, Static: true, Src: "ifaceequiv " + pr[0] + " " + pr[1]}
		if a == nil || b == nil {
			o.Model = "type not found (package not loaded for this property)"
			continue
		}
		ia, ok1 := a.Underlying().(*types.Interface)
		ib, ok2 := b.Underlying().(*types.Interface)
		if ok1 && ok2 {
			o.StaticOK = types.Identical(ia, ib) || (types.Implements(ia, ib) && types.Implements(ib, ia))
		}
		if !o.StaticOK {
			o.Model = fmt.Sprintf("%s and %s do not have the same method set", pr[0], pr[1])
		}
		out = append(out, &workItem{o: o})
	}
	return out
}

// determinismObligations: a function marked `deterministic` does not range over a Go map and calls no
// source of time or randomness (frame:det, decided by scanning its SSA body).
func determinismObligations(w *World, key string) []*workItem {
	fn := w.FnByKey[key]
	if fn == nil {
		return nil
	}
	var out []*workItem
	for _, fc := range w.contractsFor(key) {
		if !fc.Deterministic {
			continue
		}
		var bad []string
		for _, b := range fn.Blocks {
			for _, ins := range b.Instrs {
				switch v := ins.(type) {
				case *ssa.Range:
					if _, isMap := v.X.Type().Underlying().(*types.Map); isMap {
						bad = append(bad, "range over a Go map at "+w.Prog.Fset.Position(v.Pos()).String())
					}
				case *ssa.Call:
					if f, ok := v.Common().Value.(*ssa.Function); ok {
						k := fnKey(f)
						if strings.HasPrefix(k, "time.") || strings.HasPrefix(k, "rand.") || strings.HasPrefix(k, "maps.Keys") || strings.HasPrefix(k, "maps.Values") {
							if !(strings.HasPrefix(k, "maps.")) {
								bad = append(bad, "call to "+k+" at "+w.Prog.Fset.Position(v.Pos()).String())
							}
						}
					}
				case *ssa.Convert:
					if _, isPtr := v.X.Type().Underlying().(*types.Pointer); isPtr && isInt(v.Type()) {
						bad = append(bad, "pointer converted to an integer at "+w.Prog.Fset.Position(v.Pos()).String())
					}
				}
			}
		}
		name := key + "#frame:det"
		o := &Obligation{Fn: key, Kind: "frame:det", Name: name, Group: name, Static: true, StaticOK: len(bad) == 0, Src: "deterministic"}
		if len(bad) > 0 {
			o.Model = strings.Join(bad, "; ")
		}
		out = append(out, &workItem{o: o})
		break
	}
	return out
}

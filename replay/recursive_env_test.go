package dawn

// Replay harness for (*pickle.Encoder).encodeComplex#callsite:memoize-before-descend (pickler branch):
// fingerprinting a function that references itself through its module's globals must terminate.
// On the unrepaired code this test does not fail - it kills the test binary with a fatal stack overflow.

import (
	"os"
	"os/exec"
	"testing"

	"go.starlark.net/starlark"
)

func TestVerifReplayRecursiveEnv(t *testing.T) {
	if os.Getenv("VERIF_REPLAY_CHILD") == "1" {
		g, err := starlark.ExecFile(&starlark.Thread{}, "x.star", "def fact(n):\n    return 1 if n < 2 else n * fact(n - 1)\n", nil)
		if err != nil {
			t.Fatal(err)
		}
		if _, err := functionEnv(g["fact"].(*starlark.Function)); err != nil {
			t.Fatalf("fingerprint of a recursive function: %v", err)
		}
		return
	}
	cmd := exec.Command(os.Args[0], "-test.run", "TestVerifReplayRecursiveEnv")
	cmd.Env = append(os.Environ(), "VERIF_REPLAY_CHILD=1", "GOTRACEBACK=none")
	out, err := cmd.CombinedOutput()
	if err != nil {
		msg := string(out)
		if len(msg) > 300 {
			msg = msg[:300]
		}
		t.Fatalf("fingerprinting def fact(n): ... fact(n-1) crashed the process (%v): %s", err, msg)
	}
}

package main

// Loading of /repo packages (SSA) and contract files; key normalisation.

import (
	"fmt"
	"go/types"
	"os"
	"path/filepath"
	"sort"
	"strings"

	"golang.org/x/tools/go/packages"
	"golang.org/x/tools/go/ssa"
	"golang.org/x/tools/go/ssa/ssautil"
)

const repoModule = "github.com/pgavlin/dawn"

type World struct {
	stableWriters map[string]map[string]bool // stable field key -> declared writer keys
	stableReach   map[string]map[*ssa.Function]bool
	RepoDir string
	Prog    *ssa.Program
	Pkgs    []*packages.Package
	SPkgs   map[string]*ssa.Package
	CS      *Contracts
	FnByKey map[string]*ssa.Function
	LoadErrs []string
}

func pkgShort(p *types.Package) string {
	if p == nil {
		return ""
	}
	if p.Path() == "github.com/pgavlin/mvs" {
		return "pmvs"
	}
	return p.Name()
}

func qualifier(p *types.Package) string { return pkgShort(p) }

func typeStr(t types.Type) string { return types.TypeString(t, qualifier) }

// fnKey returns the normalised contract key of an SSA function.
func fnKey(fn *ssa.Function) string {
	if fn == nil {
		return "<nil>"
	}
	if fn.Parent() != nil {
		pk := fnKey(fn.Parent())
		// replace trailing name of parent with fn.Name()
		i := strings.LastIndex(pk, ".")
		return pk[:i+1] + fn.Name()
	}
	name := fn.Name()
	if i := strings.Index(name, "["); i > 0 && len(fn.TypeArgs()) > 0 {
		name = name[:i]
	}
	if fn.Signature != nil && fn.Signature.Recv() != nil {
		return "(" + typeStr(fn.Signature.Recv().Type()) + ")." + name
	}
	if fn.Pkg != nil {
		return pkgShort(fn.Pkg.Pkg) + "." + name
	}
	if fn.Object() != nil && fn.Object().Pkg() != nil {
		return pkgShort(fn.Object().Pkg()) + "." + name
	}
	return name
}

func ifaceMethodKey(recv types.Type, m *types.Func) string {
	return "(" + typeStr(recv) + ")." + m.Name()
}

func LoadWorld(repoDir string, patterns []string, overlay map[string][]byte) (*World, error) {
	cfg := &packages.Config{
		Mode:       packages.LoadSyntax,
		Dir:        repoDir,
		BuildFlags: []string{"-tags=verif"},
		Env:        append(os.Environ(), "GOFLAGS=-mod=mod", "GOPROXY=off", "GOSUMDB=off", "GOTOOLCHAIN=local"),
		Overlay:    overlay,
	}
	pkgs, err := packages.Load(cfg, patterns...)
	if err != nil {
		return nil, err
	}
	w := &World{RepoDir: repoDir, Pkgs: pkgs, SPkgs: map[string]*ssa.Package{}, FnByKey: map[string]*ssa.Function{}}
	for _, p := range pkgs {
		for _, e := range p.Errors {
			w.LoadErrs = append(w.LoadErrs, e.Error())
		}
	}
	if len(w.LoadErrs) > 0 {
		return w, fmt.Errorf("package load errors: %s", strings.Join(w.LoadErrs, "; "))
	}
	prog, spkgs := ssautil.Packages(pkgs, ssa.GlobalDebug)
	prog.Build()
	w.Prog = prog
	for i, sp := range spkgs {
		if sp == nil {
			continue
		}
		w.SPkgs[pkgs[i].PkgPath] = sp
	}
	// index functions (incl. methods and anonymous functions) of loaded packages
	for _, sp := range w.SPkgs {
		for _, m := range sp.Members {
			switch m := m.(type) {
			case *ssa.Function:
				w.indexFn(m)
			case *ssa.Type:
				for _, T := range []types.Type{m.Type(), types.NewPointer(m.Type())} {
					ms := prog.MethodSets.MethodSet(T)
					for i := 0; i < ms.Len(); i++ {
						if f := prog.MethodValue(ms.At(i)); f != nil && f.Synthetic == "" {
							w.indexFn(f)
						}
					}
				}
			}
		}
	}
	// contracts
	w.CS = NewContracts()
	// contract files of the loaded packages and of every repository package they import
	var all []*packages.Package
	seenP := map[string]bool{}
	var walk func(p *packages.Package)
	walk = func(p *packages.Package) {
		if seenP[p.PkgPath] || !strings.HasPrefix(p.PkgPath, repoModule) {
			return
		}
		seenP[p.PkgPath] = true
		var ims []string
		for k := range p.Imports {
			ims = append(ims, k)
		}
		sort.Strings(ims)
		for _, k := range ims {
			walk(p.Imports[k])
		}
		all = append(all, p)
	}
	for _, p := range pkgs {
		walk(p)
	}
	for _, p := range all {
		for _, f := range p.GoFiles {
			if strings.HasSuffix(f, "_verif.go") && strings.Contains(filepath.Base(f), "contracts") {
				var err error
				if data, ok := overlay[f]; ok {
					err = w.CS.loadFromBytes(f, data, true)
				} else {
					err = w.CS.LoadContractFile(f, true)
				}
				if err != nil {
					return w, err
				}
			}
		}
	}
	return w, nil
}

func (cs *Contracts) loadFromBytes(path string, data []byte, repoStyle bool) error {
	tmp, err := os.CreateTemp("", "contract*.txt")
	if err != nil {
		return err
	}
	defer os.Remove(tmp.Name())
	tmp.Write(data)
	tmp.Close()
	return cs.LoadContractFile(tmp.Name(), repoStyle)
}

func (w *World) LoadAssumed(dir string) error {
	files, _ := filepath.Glob(filepath.Join(dir, "*.spec"))
	sort.Strings(files)
	for _, f := range files {
		if err := w.CS.LoadContractFile(f, false); err != nil {
			return err
		}
	}
	return nil
}

func (w *World) indexFn(f *ssa.Function) {
	if f == nil {
		return
	}
	k := fnKey(f)
	if _, ok := w.FnByKey[k]; ok {
		return
	}
	w.FnByKey[k] = f
	for _, a := range f.AnonFuncs {
		w.indexFn(a)
	}
}

// Contract lookup: returns the contract variants for a key.
func (w *World) contractsFor(key string) []*FuncContract { return w.CS.Funcs[key] }

// primary contract (first variant) for use at call sites.
func (w *World) callContract(key string) *FuncContract {
	v := w.CS.Funcs[key]
	if len(v) == 0 {
		return nil
	}
	return v[0]
}

// callContractFor selects the callee contract variant a caller verified in `mode` (and named
// `variant`) uses: the variant of the same name, else the first variant written for the same
// integer mode, else none (the call is then abstracted).
func (w *World) callContractFor(key, mode, variant string) *FuncContract {
	v := w.CS.Funcs[key]
	if len(v) == 0 {
		return nil
	}
	if variant != "" {
		for _, fc := range v {
			if fc.Variant == variant && fc.Mode == mode {
				return fc
			}
		}
	}
	for _, fc := range v {
		if fc.Variant == "" && fc.Mode == mode {
			return fc
		}
	}
	for _, fc := range v {
		if fc.Mode == mode {
			return fc
		}
	}
	// contracts that do not mention integers work in either mode: assumed specs without a mode line
	for _, fc := range v {
		if fc.Assumed && !fc.ModeSet {
			return fc
		}
	}
	return nil
}

func inRepo(fn *ssa.Function) bool {
	if fn == nil {
		return false
	}
	var p *types.Package
	if fn.Pkg != nil {
		p = fn.Pkg.Pkg
	} else if fn.Object() != nil {
		p = fn.Object().Pkg()
	} else if fn.Parent() != nil {
		return inRepo(fn.Parent())
	}
	return p != nil && strings.HasPrefix(p.Path(), repoModule)
}

// mayHaveGhostEffects: can repository code without a contract reach (through static calls) a function
// whose contract changes ghost state, or make an interface/dynamic call (whose target is unknown)?
func (w *World) mayHaveGhostEffects(fn *ssa.Function, seen map[*ssa.Function]bool) bool {
	if seen[fn] {
		return false
	}
	seen[fn] = true
	for _, b := range fn.Blocks {
		for _, ins := range b.Instrs {
			var cc *ssa.CallCommon
			switch c := ins.(type) {
			case *ssa.Call:
				cc = c.Common()
			case *ssa.Defer:
				cc = c.Common()
			case *ssa.Go:
				cc = c.Common()
			default:
				continue
			}
			if cc.IsInvoke() {
				return true
			}
			switch v := cc.Value.(type) {
			case *ssa.Builtin:
				continue
			case *ssa.Function:
				key := fnKey(v)
				if fc := w.callContract(key); fc != nil {
					for _, m := range fc.Modifies {
						m = strings.TrimSpace(m)
						if _, isGhost := w.CS.Ghosts[m]; isGhost {
							return true
						}
					}
					continue
				}
				if inRepo(v) && len(v.Blocks) > 0 {
					if w.mayHaveGhostEffects(v, seen) {
						return true
					}
				}
			case *ssa.MakeClosure:
				if f, ok := v.Fn.(*ssa.Function); ok && w.mayHaveGhostEffects(f, seen) {
					return true
				}
			default:
				return true
			}
		}
	}
	return false
}

// mayWriteStable reports whether fn is, or may reach through static calls (including the closures it
// creates and the functions it defers or spawns), a declared writer of the stable field with key k
// ("F:<type>.<field>"). Interface and closure-value calls are not followed: that dynamic calls do not
// reach a writer of a stable field is an assumption of `stable` (stated in DESIGN.md).
func (w *World) mayWriteStable(fn *ssa.Function, k string) bool {
	if fn == nil {
		return false
	}
	if w.stableWriters == nil {
		w.stableWriters = map[string]map[string]bool{}
		for tn, sc := range w.CS.Structs {
			for f, ws := range sc.Stable {
				m := map[string]bool{}
				for _, x := range ws {
					m[strings.TrimSpace(x)] = true
				}
				w.stableWriters["F:"+tn+"."+f] = m
			}
		}
		w.stableReach = map[string]map[*ssa.Function]bool{}
	}
	writers := w.stableWriters[k]
	if len(writers) == 0 {
		return false
	}
	memo := w.stableReach[k]
	if memo == nil {
		memo = map[*ssa.Function]bool{}
		w.stableReach[k] = memo
	}
	var visit func(f *ssa.Function, seen map[*ssa.Function]bool) bool
	visit = func(f *ssa.Function, seen map[*ssa.Function]bool) bool {
		if f == nil {
			return false
		}
		if r, ok := memo[f]; ok {
			return r
		}
		if seen[f] {
			return false
		}
		seen[f] = true
		if writers[fnKey(f)] {
			memo[f] = true
			return true
		}
		for _, b := range f.Blocks {
			for _, ins := range b.Instrs {
				var callee *ssa.Function
				switch x := ins.(type) {
				case ssa.CallInstruction:
					callee = x.Common().StaticCallee()
				case *ssa.MakeClosure:
					callee, _ = x.Fn.(*ssa.Function)
				}
				if callee != nil && visit(callee, seen) {
					memo[f] = true
					return true
				}
			}
		}
		for _, af := range f.AnonFuncs {
			if visit(af, seen) {
				memo[f] = true
				return true
			}
		}
		memo[f] = false
		return false
	}
	return visit(fn, map[*ssa.Function]bool{})
}


package main

// Selftest: must-fail mutants and must-pass refactors, applied through overlays (never to /repo).

import (
	"encoding/json"
	"fmt"
	"os"
	"os/exec"
	"path/filepath"
	"sort"
	"strings"
	"sync"
)

// A mutant is /verif/selftest/{mutants,refactors}/<property>/<name>.diff (unified diff against /repo, -p1).
// selftestLines collects the result lines of the latest selftest run (used by the thorough tier).
var selftestLines []string

func selftest(args []string) int {
	selftestLines = nil
	only, onlyKind, onlyName := "", "", ""
	for _, a := range args {
		if a == "mutants" || a == "refactors" {
			onlyKind = a
		} else if strings.HasPrefix(a, "name=") {
			onlyName = a[5:] // substring of the diff's file name, e.g. name=seed-M
		} else {
			only = a
		}
	}
	type job struct {
		kind, prop, path string
	}
	var jobs []job
	for _, kind := range []string{"mutants", "refactors"} {
		if onlyKind != "" && onlyKind != kind {
			continue
		}
		files, _ := filepath.Glob(filepath.Join(verifDir, "selftest", kind, "*", "*.diff"))
		sort.Strings(files)
		for _, f := range files {
			prop := filepath.Base(filepath.Dir(f))
			if only != "" && only != prop {
				continue
			}
			if onlyName != "" && !strings.Contains(filepath.Base(f), onlyName) {
				continue
			}
			jobs = append(jobs, job{kind, prop, f})
		}
	}
	self, _ := os.Executable()
	var mu sync.Mutex
	bad := 0
	var wg sync.WaitGroup
	sem := make(chan struct{}, 4)
	for _, j := range jobs {
		wg.Add(1)
		sem <- struct{}{}
		go func(j job) {
			defer wg.Done()
			defer func() { <-sem }()
			tmp, err := os.MkdirTemp("", "govc-selftest")
			if err != nil {
				return
			}
			defer os.RemoveAll(tmp)
			ov, err := applyDiffToTemp(j.path, tmp)
			msg := ""
			if err != nil {
				msg = "cannot apply: " + err.Error()
			} else {
				ovf := filepath.Join(tmp, "overlay.json")
				data, _ := json.Marshal(ov)
				os.WriteFile(ovf, data, 0o644)
				cmd := exec.Command(self, "check", j.prop, "--overlay", ovf, "--no-evidence", "--out", filepath.Join(tmp, "out"))
				cmd.Env = os.Environ()
				out, err := cmd.CombinedOutput()
				code := 0
				if ee, ok := err.(*exec.ExitError); ok {
					code = ee.ExitCode()
				} else if err != nil {
					code = -1
				}
				want := 1
				if j.kind == "refactors" {
					want = 0
				}
				if code != want {
					msg = fmt.Sprintf("exit %d, want %d\n%s", code, want, tail(string(out), 12))
				} else if want == 1 {
					var gs []string
					for _, l := range strings.Split(string(out), "\n") {
						if strings.HasPrefix(l, "VIOLATION") {
							g := firstViolation(l, tmp)
							g = strings.TrimPrefix(g, "failed obligation group: ")
							if i := strings.Index(g, " ("); i > 0 && strings.HasPrefix(g, "bounded") {
								g = g[:i]
							}
							gs = append(gs, g)
						}
					}
					if len(gs) > 4 {
						gs = append(gs[:4], fmt.Sprintf("... %d more", len(gs)-4))
					}
					msg = "ok: " + strings.Join(gs, "; ")
				} else {
					msg = "ok"
				}
			}
			mu.Lock()
			status := "PASS"
			if !strings.HasPrefix(msg, "ok") {
				status = "FAIL"
				bad++
			}
			line := fmt.Sprintf("%s %s %s/%s: %s", status, j.kind, j.prop, strings.TrimSuffix(filepath.Base(j.path), ".diff"), msg)
			selftestLines = append(selftestLines, line)
			fmt.Println(line)
			mu.Unlock()
		}(j)
	}
	wg.Wait()
	fmt.Printf("selftest: %d cases, %d wrong\n", len(jobs), bad)
	if bad > 0 {
		return 1
	}
	return 0
}

func firstViolation(line, tmp string) string {
	// extract the failed group from the replay file
	f := strings.Fields(line)
	for _, w := range f {
		if strings.HasPrefix(w, "replay=") {
			data, err := os.ReadFile(strings.TrimPrefix(w, "replay="))
			if err == nil {
				for _, l := range strings.Split(string(data), "\n") {
					if strings.HasPrefix(l, "failed obligation group:") || strings.HasPrefix(l, "bounded stand-in") {
						return strings.TrimSpace(l)
					}
				}
			}
		}
	}
	return line
}

func tail(s string, n int) string {
	ls := strings.Split(strings.TrimSpace(s), "\n")
	if len(ls) > n {
		ls = ls[len(ls)-n:]
	}
	return strings.Join(ls, "\n")
}

// applyDiffToTemp applies a unified diff (paths a/... b/... relative to /repo) to copies of the files.
func applyDiffToTemp(diff, tmp string) (map[string]string, error) {
	data, err := os.ReadFile(diff)
	if err != nil {
		return nil, err
	}
	ov := map[string]string{}
	var files []string
	for _, l := range strings.Split(string(data), "\n") {
		if strings.HasPrefix(l, "+++ ") {
			p := strings.Fields(l)[1]
			p = strings.TrimPrefix(p, "b/")
			files = append(files, p)
		}
	}
	for _, f := range files {
		src := filepath.Join(repoDir, f)
		dst := filepath.Join(tmp, "src", f)
		os.MkdirAll(filepath.Dir(dst), 0o755)
		c, err := os.ReadFile(src)
		if err != nil {
			// new file
			c = nil
		}
		os.WriteFile(dst, c, 0o644)
		ov[src] = dst
	}
	cmd := exec.Command("patch", "-p1", "-s", "-d", filepath.Join(tmp, "src"), "-i", diff)
	if out, err := cmd.CombinedOutput(); err != nil {
		return nil, fmt.Errorf("%v: %s", err, out)
	}
	return ov, nil
}

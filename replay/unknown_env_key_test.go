package dawn

// Replay harness for (*dawn.function).diffEnv#safe:slice (function.go, reasons[:len(reasons)-1]):
// a record whose recorded environment is a well-formed dict that differs from the current one only in
// keys diffEnv does not know must make the target out of date (or fail the build with an error),
// not crash the process.

import (
	"bytes"
	"encoding/base64"
	"encoding/json"
	"os"
	"path/filepath"
	"strings"
	"testing"

	"github.com/pgavlin/dawn/label"
	starlark_os "github.com/pgavlin/dawn/lib/os"
	starlark_sh "github.com/pgavlin/dawn/lib/sh"
	"github.com/pgavlin/dawn/pickle"
	starlark_json "go.starlark.net/lib/json"
	"go.starlark.net/starlark"
)

func TestVerifReplayUnknownEnvKey(t *testing.T) {
	dir := t.TempDir()
	write := func(name, s string) {
		if err := os.WriteFile(filepath.Join(dir, name), []byte(s), 0o644); err != nil {
			t.Fatal(err)
		}
	}
	write(".dawnconfig", "")
	write("BUILD.dawn", "@target(default=True)\ndef top():\n    print(\"hi\")\n")
	verifUnkBuild(t, dir, "//:default")

	// find the record of //:top and add one unknown key to its recorded environment
	var recPath string
	filepath.Walk(filepath.Join(dir, ".dawn"), func(p string, fi os.FileInfo, err error) error {
		if err == nil && !fi.IsDir() && strings.Contains(p, "top") && !strings.Contains(p, "index") {
			recPath = p
		}
		return nil
	})
	if recPath == "" {
		t.Fatal("record of //:top not found")
	}
	raw, err := os.ReadFile(recPath)
	if err != nil {
		t.Fatal(err)
	}
	var rec map[string]interface{}
	if err := json.Unmarshal(raw, &rec); err != nil {
		t.Fatal(err)
	}
	stamp, _ := rec["stamp"].(string)
	prefix := ""
	if i := strings.IndexByte(stamp, ':'); i >= 0 { // execution identifier in front of the environment
		prefix, stamp = stamp[:i+1], stamp[i+1:]
	}
	env, err := pickle.NewDecoder(base64.NewDecoder(base64.StdEncoding, strings.NewReader(stamp)), pickle.UnpicklerFunc(envUnpickler)).Decode()
	if err != nil {
		t.Fatal(err)
	}
	d := env.(*starlark.Dict)
	d.SetKey(starlark.String("written by a newer dawn"), starlark.MakeInt(1))
	var buf bytes.Buffer
	b64 := base64.NewEncoder(base64.StdEncoding, &buf)
	if err := pickle.NewEncoder(b64, nil).Encode(d); err != nil {
		t.Fatal(err)
	}
	b64.Close()
	rec["stamp"] = prefix + buf.String()
	out, _ := json.Marshal(rec)
	if err := os.WriteFile(recPath, out, 0o644); err != nil {
		t.Fatal(err)
	}

	l, _ := label.Parse("//:default")
	proj, err := Load(dir, &LoadOptions{})
	if err != nil {
		return // a reported load error is acceptable
	}
	func() {
		defer func() {
			if x := recover(); x != nil {
				t.Fatalf("build crashed on a loadable record with an unknown environment key: %v", x)
			}
		}()
		proj.Run(l, nil) // success (target re-executes) or a reported error are both acceptable
	}()
}

func verifUnkBuild(t *testing.T, dir, rawlabel string) {
	t.Helper()
	l, err := label.Parse(rawlabel)
	if err != nil {
		t.Fatal(err)
	}
	proj, err := Load(dir, &LoadOptions{Builtins: starlark.StringDict{"json": starlark_json.Module, "os": starlark_os.Module, "sh": starlark_sh.Module}})
	if err != nil {
		t.Fatal(err)
	}
	if err := proj.Run(l, nil); err != nil {
		t.Fatalf("build %s: %v", rawlabel, err)
	}
}

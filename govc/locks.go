package main

// Locks, monitor invariants, rely conditions.

import (
	"fmt"
	"go/token"
	"go/types"
	"sort"
	"strings"

	"golang.org/x/tools/go/ssa"
)

type mutexRef struct {
	structT types.Type // named struct type owning the mutex field
	field   string
	obj     string // Ref term of the owning object
	rw      bool
	ok      bool
}

func isSyncType(t types.Type, name string) bool {
	n, ok := t.(*types.Named)
	if !ok {
		return false
	}
	return n.Obj().Pkg() != nil && n.Obj().Pkg().Path() == "sync" && n.Obj().Name() == name
}

func (e *Enc) lockKey(m mutexRef, read bool) (string, string) {
	p := "L:"
	if read {
		p = "LR:"
	}
	return p + typeStr(m.structT) + "." + m.field, "(Array Ref Bool)"
}

// mutexOf identifies the mutex designated by a receiver value (&x.m).
func (e *Enc) mutexOf(v ssa.Value) mutexRef {
	l, ok := e.lv[v]
	if !ok || l.elems || len(l.path) != 1 || l.path[0].isIdx {
		return mutexRef{}
	}
	su, ok := l.root.Underlying().(*types.Struct)
	if !ok {
		return mutexRef{}
	}
	f := su.Field(l.path[0].field)
	if isSyncType(f.Type(), "Mutex") {
		return mutexRef{structT: l.root, field: f.Name(), obj: l.base, ok: true}
	}
	if isSyncType(f.Type(), "RWMutex") {
		return mutexRef{structT: l.root, field: f.Name(), obj: l.base, rw: true, ok: true}
	}
	return mutexRef{}
}

// condOf identifies the mutex guarded by a *sync.Cond receiver loaded from x.cond.
func (e *Enc) condOf(v ssa.Value) mutexRef {
	u, ok := v.(*ssa.UnOp)
	if !ok || u.Op != token.MUL {
		return mutexRef{}
	}
	l, ok := e.lv[u.X]
	if !ok || l.elems || len(l.path) != 1 {
		return mutexRef{}
	}
	su, ok := l.root.Underlying().(*types.Struct)
	if !ok {
		return mutexRef{}
	}
	f := su.Field(l.path[0].field)
	sc := e.w.CS.Structs[typeStr(l.root)]
	if sc == nil {
		return mutexRef{}
	}
	mf, ok := sc.Conds[f.Name()]
	if !ok {
		return mutexRef{}
	}
	for i := 0; i < su.NumFields(); i++ {
		if su.Field(i).Name() == mf {
			return mutexRef{structT: l.root, field: mf, obj: l.base, rw: isSyncType(su.Field(i).Type(), "RWMutex"), ok: true}
		}
	}
	return mutexRef{}
}

func (e *Enc) structContract(t types.Type) *StructContract {
	return e.w.CS.Structs[typeStr(t)]
}

func (e *Enc) protectedFields(m mutexRef) []*types.Var {
	sc := e.structContract(m.structT)
	if sc == nil {
		return nil
	}
	su := m.structT.Underlying().(*types.Struct)
	var out []*types.Var
	for _, fn := range sc.Protected[m.field] {
		found := false
		for i := 0; i < su.NumFields(); i++ {
			if su.Field(i).Name() == fn {
				out = append(out, su.Field(i))
				found = true
			}
		}
		if !found {
			if _, ok := sc.GhostFields[fn]; !ok {
				e.fail("struct %s: protected field %s not found", sc.Type, fn)
			}
		}
	}
	return out
}

func (e *Enc) protectedGhostFields(m mutexRef) []string {
	sc := e.structContract(m.structT)
	if sc == nil {
		return nil
	}
	var out []string
	for _, fn := range sc.Protected[m.field] {
		if _, ok := sc.GhostFields[fn]; ok {
			out = append(out, fn)
		}
	}
	return out
}

func (e *Enc) ghostFieldKey(t types.Type, name string) (string, string, string) {
	sc := e.structContract(t)
	s := e.st.ghostSort(sc.GhostFields[name])
	return "GF:" + typeStr(t) + "." + name, fmt.Sprintf("(Array Ref %s)", s), s
}

// map-typed protected fields: the map contents are protected too.
func (e *Enc) protectedKeys(m mutexRef) [][2]string {
	var out [][2]string
	for _, f := range e.protectedFields(m) {
		k, ks := e.fieldKey(m.structT, f)
		out = append(out, [2]string{k, ks})
	}
	for _, g := range e.protectedGhostFields(m) {
		k, ks, _ := e.ghostFieldKey(m.structT, g)
		out = append(out, [2]string{k, ks})
	}
	return out
}

// havocView replaces this thread's view of the state protected by m (at object m.obj) by an arbitrary
// state related to the previous view by the rely, and (if inv) satisfying the invariant.
func (e *Enc) havocView(m mutexRef, st *State, guard string, inv bool) {
	sc := e.structContract(m.structT)
	if sc == nil {
		return
	}
	before := st.clone()
	for _, ks := range e.protectedKeys(m) {
		e.regKey(ks[0], ks[1])
		old := e.get(st, ks[0], ks[1])
		elemSort := strings.TrimSuffix(strings.TrimPrefix(ks[1], "(Array Ref "), ")")
		fv := e.freshConst("view", elemSort)
		e.guardedSet(st, ks[0], guard, fmt.Sprintf("(store %s %s %s)", old, m.obj, fv))
	}
	// protected map fields: contents of the maps they point to are havocked as well
	for _, f := range e.protectedFields(m) {
		if mt, ok := f.Type().Underlying().(*types.Map); ok {
			fk, fks := e.fieldKey(m.structT, f)
			mref := fmt.Sprintf("(select %s %s)", e.get(before, fk, fks), m.obj)
			dk, ds, vk, vs := e.mapKeys(mt)
			for _, kk := range [][2]string{{dk, ds}, {vk, vs}} {
				e.regKey(kk[0], kk[1])
				old := e.get(st, kk[0], kk[1])
				inner := strings.TrimSuffix(strings.TrimPrefix(kk[1], "(Array Ref "), ")")
				fv := e.freshConst("viewmap", inner)
				e.guardedSet(st, kk[0], guard, fmt.Sprintf("(store %s %s %s)", old, mref, fv))
			}
			// the map pointer itself is stable (set once before publication): keep it
			e.guardedSet(st, fk, guard, fmt.Sprintf("(store %s %s %s)", e.get(st, fk, fks), m.obj, mref))
		}
	}
	ctx := e.ctxAt(st, e.curBlock, e.curIdx)
	ctx.old = before
	ctx.bind = map[string]TV{"this": {T: m.obj, Typ: types.NewPointer(m.structT), Sort: "Ref"}}
	ctx.noLocals = true
	ctx.useParams = false
	for _, c := range sc.Relies[m.field] {
		e.assume(fmt.Sprintf("(=> %s %s)", guard, ctx.evalBool(c)))
	}
	if inv {
		for _, c := range sc.Invariants[m.field] {
			e.assume(fmt.Sprintf("(=> %s %s)", guard, ctx.evalBool(c)))
		}
	}
}

func (e *Enc) snapKey(k string) string { return "SNAP:" + k }

func (e *Enc) takeSnapshot(m mutexRef, st *State, guard string) {
	for _, ks := range e.protectedKeys(m) {
		cur := e.get(st, ks[0], ks[1])
		sk := e.snapKey(ks[0])
		e.regKey(sk, ks[1])
		old := e.get(st, sk, ks[1])
		e.guardedSet(st, sk, guard, fmt.Sprintf("(store %s %s (select %s %s))", old, m.obj, cur, m.obj))
	}
	for _, f := range e.protectedFields(m) {
		if mt, ok := f.Type().Underlying().(*types.Map); ok {
			dk, ds, vk, vs := e.mapKeys(mt)
			for _, kk := range [][2]string{{dk, ds}, {vk, vs}} {
				sk := e.snapKey(kk[0])
				e.regKey(sk, kk[1])
				e.guardedSet(st, sk, guard, e.get(st, kk[0], kk[1]))
			}
		}
	}
}

// snapshotState builds a State in which protected keys read from the snapshot.
func (e *Enc) snapshotState(m mutexRef, st *State) *State {
	s := st.clone()
	for _, ks := range e.protectedKeys(m) {
		sk := e.snapKey(ks[0])
		s.m[ks[0]] = e.get(st, sk, ks[1])
	}
	for _, f := range e.protectedFields(m) {
		if mt, ok := f.Type().Underlying().(*types.Map); ok {
			dk, ds, vk, vs := e.mapKeys(mt)
			for _, kk := range [][2]string{{dk, ds}, {vk, vs}} {
				s.m[kk[0]] = e.get(st, e.snapKey(kk[0]), kk[1])
			}
		}
	}
	return s
}

// release checks invariant and rely at a release point and applies on_release ghost rules.
func (e *Enc) release(m mutexRef, st *State, guard string, pos token.Pos, what string) {
	sc := e.structContract(m.structT)
	if sc == nil {
		return
	}
	snap := e.snapshotState(m, st)
	ctx := e.ctxAt(st, e.curBlock, e.curIdx)
	ctx.old = snap
	ctx.bind = map[string]TV{"this": {T: m.obj, Typ: types.NewPointer(m.structT), Sort: "Ref"}}
	ctx.noLocals = true
	ctx.useParams = false
	n := e.ordinal("mon:" + m.field)
	for i, c := range sc.Invariants[m.field] {
		nm := c.Name
		if nm == "" {
			nm = fmt.Sprintf("inv%d", i)
		}
		e.oblige("mon", fmt.Sprintf("%s@%s%d/%s", m.field, what, n, nm), m.field+"/"+nm, guard, ctx.evalBool(c), pos, c.Src)
	}
	for i, c := range sc.Guarantees[m.field] {
		nm := c.Name
		if nm == "" {
			nm = fmt.Sprintf("guar%d", i)
		}
		e.oblige("mon", fmt.Sprintf("%s@%s%d/%s", m.field, what, n, nm), m.field+"/"+nm, guard, ctx.evalBool(c), pos, c.Src)
	}
	// ghost updates on release (evaluated simultaneously on the pre-release state)
	type upd struct{ key, sort, term string }
	var upds []upd
	for _, or := range sc.OnRelease {
		if or.Mutex != m.field {
			continue
		}
		cond := "true"
		if or.When != nil {
			cond = ctx.evalBool(or.When)
		}
		val := ctx.eval(or.Val.E)
		if gv, ok := e.w.CS.Ghosts[or.Ghost]; ok {
			key := "G:" + or.Ghost
			s := e.st.ghostSort(gv.Sort)
			e.regKey(key, s)
			old := e.get(st, key, s)
			upds = append(upds, upd{key, s, fmt.Sprintf("(ite (and %s %s) %s %s)", guard, cond, val.T, old)})
		} else if strings.HasPrefix(or.Ghost, "this.") {
			gf := strings.TrimPrefix(or.Ghost, "this.")
			key, ks, _ := e.ghostFieldKey(m.structT, gf)
			e.regKey(key, ks)
			old := e.get(st, key, ks)
			upds = append(upds, upd{key, ks, fmt.Sprintf("(ite (and %s %s) (store %s %s %s) %s)", guard, cond, old, m.obj, val.T, old)})
		} else {
			e.fail("on_release: unknown ghost %s", or.Ghost)
		}
	}
	for _, u := range upds {
		e.set(st, u.key, u.sort, u.term)
	}
}

// encLockOp handles sync.Mutex / RWMutex / Cond operations. Returns true if handled.
func (e *Enc) encLockOp(v ssa.Value, c *ssa.CallCommon, ci *calleeInfo, st *State, guard string, pos token.Pos) bool {
	var op string
	switch ci.key {
	case "(*sync.Mutex).Lock", "(*sync.RWMutex).Lock":
		op = "Lock"
	case "(*sync.Mutex).Unlock", "(*sync.RWMutex).Unlock":
		op = "Unlock"
	case "(*sync.RWMutex).RLock":
		op = "RLock"
	case "(*sync.RWMutex).RUnlock":
		op = "RUnlock"
	case "(*sync.Cond).Wait":
		op = "Wait"
	case "(*sync.Cond).Signal", "(*sync.Cond).Broadcast":
		// no effect on the lock state; if the contracts declare the ghost array `wakes`, every wake-up
		// call of this goroutine is counted per monitor: wakes[slot(x.m)] for the condition variable that
		// the contracts declare to guard mutex field m of x (so that "a release of THIS monitor is
		// followed by a wake-up of ITS waiters" can be stated; another monitor's signal does not count)
		if gv, ok := e.w.CS.Ghosts["wakes"]; ok && e.mode == ModeInt && len(c.Args) > 0 {
			if m := e.condOf(c.Args[0]); m.ok {
				key := "G:wakes"
				gs := e.st.ghostSort(gv.Sort)
				e.regKey(key, gs)
				old := e.get(st, key, gs)
				slot := fmt.Sprintf("(fslot %s %d)", m.obj, fieldSlotID(m.structT, m.field))
				e.set(st, key, gs, fmt.Sprintf("(ite %s (store %s %s (+ (select %s %s) 1)) %s)", guard, old, slot, old, slot, old))
			} else {
				e.note(fmt.Sprintf("%s: wake-up on an unidentified condition variable at %s (not counted)", e.key, e.pos(pos)))
			}
		}
		return true
	default:
		return false
	}
	var m mutexRef
	if op == "Wait" {
		m = e.condOf(c.Args[0])
	} else {
		m = e.mutexOf(c.Args[0])
	}
	if !m.ok {
		e.note(fmt.Sprintf("%s: lock operation on an unidentified mutex at %s (ignored)", e.key, e.pos(pos)))
		return true
	}
	lk, ls := e.lockKey(m, false)
	rk, _ := e.lockKey(m, true)
	held := fmt.Sprintf("(select %s %s)", e.get(st, lk, ls), m.obj)
	rheld := fmt.Sprintf("(select %s %s)", e.get(st, rk, ls), m.obj)
	n := e.ordinal("lockop")
	switch op {
	case "Lock", "RLock":
		// sync mutexes are not re-entrant: acquiring a mutex this thread holds self-deadlocks
		fresh := fmt.Sprintf("(not %s)", held)
		if m.rw {
			fresh = fmt.Sprintf("(and (not %s) (not %s))", held, rheld)
		}
		e.oblige("lock:fresh", fmt.Sprintf("%s@%d", m.field, n), m.field, guard, fresh, pos, "")
		e.assume(fmt.Sprintf("(=> %s %s)", guard, fresh))
		key := lk
		if op == "RLock" {
			key = rk
		}
		e.guardedSet(st, key, guard, fmt.Sprintf("(store %s %s true)", e.get(st, key, ls), m.obj))
		e.havocView(m, st, guard, true)
		e.takeSnapshot(m, st, guard)
	case "Unlock":
		e.oblige("lock:held", fmt.Sprintf("%s@unlock%d", m.field, n), m.field+"/unlock", guard, held, pos, "")
		e.assume(fmt.Sprintf("(=> %s %s)", guard, held))
		e.release(m, st, guard, pos, "unlock")
		e.guardedSet(st, lk, guard, fmt.Sprintf("(store %s %s false)", e.get(st, lk, ls), m.obj))
		e.havocView(m, st, guard, false)
	case "RUnlock":
		e.oblige("lock:held", fmt.Sprintf("%s@runlock%d", m.field, n), m.field+"/unlock", guard, rheld, pos, "")
		e.assume(fmt.Sprintf("(=> %s %s)", guard, rheld))
		e.guardedSet(st, rk, guard, fmt.Sprintf("(store %s %s false)", e.get(st, rk, ls), m.obj))
		e.havocView(m, st, guard, false)
	case "Wait":
		e.oblige("lock:held", fmt.Sprintf("%s@wait%d", m.field, n), m.field+"/wait", guard, held, pos, "")
		e.assume(fmt.Sprintf("(=> %s %s)", guard, held))
		e.release(m, st, guard, pos, "wait")
		e.havocView(m, st, guard, true)
		e.takeSnapshot(m, st, guard)
	}
	return true
}

// checkProtected emits lock:held for accesses to fields declared protected_by.
func (e *Enc) checkProtected(l *lvalue, st *State, write bool, pos token.Pos) {
	if l.elems || len(l.path) == 0 || l.path[0].isIdx {
		return
	}
	su, ok := l.root.Underlying().(*types.Struct)
	if !ok {
		return
	}
	sc := e.structContract(l.root)
	if sc == nil {
		return
	}
	f := su.Field(l.path[0].field)
	for mf, fields := range sc.Protected {
		for _, fn := range fields {
			if fn != f.Name() {
				continue
			}
			if l.fresh {
				return // object allocated here and not yet shared
			}
			m := mutexRef{structT: l.root, field: mf, obj: l.base, ok: true}
			lk, ls := e.lockKey(m, false)
			rk, _ := e.lockKey(m, true)
			held := fmt.Sprintf("(select %s %s)", e.get(st, lk, ls), l.base)
			goal := held
			what := "write"
			if !write {
				goal = fmt.Sprintf("(or %s (select %s %s))", held, e.get(st, rk, ls), l.base)
				what = "read"
			}
			n := e.ordinal("lock:held/" + f.Name())
			e.oblige("lock:held", fmt.Sprintf("%s.%s@%s%d", mf, f.Name(), what, n), mf+"/"+f.Name(), e.guardAt(), goal, pos, "")
		}
	}
}

// isProtectedKey reports whether a state key holds a field (or ghost field) declared protected_by.
func (e *Enc) isProtectedKey(k string) bool {
	if strings.HasPrefix(k, "MD:") || strings.HasPrefix(k, "MV:") {
		// contents of maps held in protected fields
		for tn, sc := range e.w.CS.Structs {
			t := e.resolveType(tn)
			if t == nil {
				continue
			}
			su, ok := t.Underlying().(*types.Struct)
			if !ok {
				continue
			}
			for _, fields := range sc.Protected {
				for _, f := range fields {
					for i := 0; i < su.NumFields(); i++ {
						if su.Field(i).Name() == f {
							if mt, ok := su.Field(i).Type().Underlying().(*types.Map); ok {
								dk, _, vk, _ := e.mapKeys(mt)
								if k == dk || k == vk {
									return true
								}
							}
						}
					}
				}
			}
		}
		return false
	}
	for tn, sc := range e.w.CS.Structs {
		for _, fields := range sc.Protected {
			for _, f := range fields {
				if k == "F:"+tn+"."+f || k == "GF:"+tn+"."+f {
					return true
				}
			}
		}
	}
	return false
}

// relyAll assumes, for every object of every struct with a lock contract, that the protected state
// in `after` is related to `before` by the rely (used when an unknown amount of code ran in between).
func (e *Enc) relyAll(before, after *State, guard string) {
	var names []string
	for tn := range e.w.CS.Structs {
		names = append(names, tn)
	}
	sort.Strings(names)
	for _, tn := range names {
		sc := e.w.CS.Structs[tn]
		if len(sc.Protected) == 0 {
			continue
		}
		t := e.resolveType(tn)
		if t == nil {
			continue // struct of a package that is not loaded
		}
		// only if some protected key is known to this encoding
		ctx := e.ctxAt(after, e.curBlock, e.curIdx)
		ctx.old = before
		ctx.bind = map[string]TV{"this": {T: "|q:this|", Typ: types.NewPointer(t), Sort: "Ref"}}
		ctx.noLocals = true
		ctx.useParams = false
		var mfs []string
		for mf := range sc.Protected {
			mfs = append(mfs, mf)
		}
		sort.Strings(mfs)
		for _, mf := range mfs {
			for _, c := range sc.Relies[mf] {
				e.assume(fmt.Sprintf("(=> %s (forall ((|q:this| Ref)) %s))", guard, ctx.evalBool(c)))
			}
			// state protected by a lock this goroutine holds (exclusively) is not changed by anyone else
			m := mutexRef{structT: t, field: mf, obj: "|q:this|", ok: true}
			lk, ls := e.lockKey(m, false)
			held := fmt.Sprintf("(select %s |q:this|)", e.get(before, lk, ls))
			var eqs []string
			for _, pk := range e.protectedKeys(m) {
				eqs = append(eqs, fmt.Sprintf("(= (select %s |q:this|) (select %s |q:this|))", e.get(after, pk[0], pk[1]), e.get(before, pk[0], pk[1])))
			}
			for _, f := range e.protectedFields(m) {
				if mt, ok := f.Type().Underlying().(*types.Map); ok {
					fk, fks := e.fieldKey(t, f)
					mref := fmt.Sprintf("(select %s |q:this|)", e.get(before, fk, fks))
					dk, ds, vk, vs := e.mapKeys(mt)
					for _, kk := range [][2]string{{dk, ds}, {vk, vs}} {
						eqs = append(eqs, fmt.Sprintf("(= (select %s %s) (select %s %s))", e.get(after, kk[0], kk[1]), mref, e.get(before, kk[0], kk[1]), mref))
					}
				}
			}
			if len(eqs) > 0 {
				e.assume(fmt.Sprintf("(=> %s (forall ((|q:this| Ref)) (=> %s (and %s))))", guard, held, strings.Join(eqs, " ")))
			}
		}
	}
}

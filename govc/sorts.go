package main

// SMT sorts, prelude, integer-mode helpers.

import (
	"crypto/sha1"
	"fmt"
	"go/constant"
	"go/token"
	"go/types"
	"math/big"
	"strings"
)

type Mode int

const (
	ModeInt Mode = iota
	ModeBV
)

func (m Mode) String() string {
	if m == ModeBV {
		return "bv"
	}
	return "int"
}

func sanitize(s string) string {
	var b strings.Builder
	for _, c := range s {
		switch {
		case c >= 'a' && c <= 'z', c >= 'A' && c <= 'Z', c >= '0' && c <= '9':
			b.WriteRune(c)
		case strings.ContainsRune("_.*[]()$:@#-/<>=,!+", c):
			b.WriteRune(c)
		default:
			b.WriteByte('_')
		}
	}
	r := b.String()
	if len(r) > 90 {
		h := sha1.Sum([]byte(s))
		r = r[:70] + fmt.Sprintf("~%x", h[:5])
	}
	return r
}

func q(s string) string { return "|" + sanitize(s) + "|" }

func intWidth(b *types.Basic) (w int, signed bool, ok bool) {
	switch b.Kind() {
	case types.Int8:
		return 8, true, true
	case types.Int16:
		return 16, true, true
	case types.Int32, types.UntypedRune:
		return 32, true, true
	case types.Int64, types.Int, types.UntypedInt:
		return 64, true, true
	case types.Uint8:
		return 8, false, true
	case types.Uint16:
		return 16, false, true
	case types.Uint32:
		return 32, false, true
	case types.Uint64, types.Uint, types.Uintptr:
		return 64, false, true
	}
	return 0, false, false
}

func isInt(t types.Type) bool {
	if t == nil {
		return false
	}
	b, ok := t.Underlying().(*types.Basic)
	if !ok {
		return false
	}
	_, _, ok = intWidth(b)
	return ok
}

func intInfo(t types.Type) (int, bool) {
	if t == nil {
		return 64, true
	}
	b, ok := t.Underlying().(*types.Basic)
	if !ok {
		return 64, true
	}
	w, s, ok := intWidth(b)
	if !ok {
		return 64, true
	}
	return w, s
}

// SortTable holds datatype declarations shared by one encoding.
type SortTable struct {
	mode    Mode
	decls   []string
	seen    map[string]string // type string -> sort name
	structs map[string]*types.Struct
	fields  map[string][]string // sort name -> accessor names
	typeIDs map[string]int
	typeOf  map[int]types.Type
}

func NewSortTable(m Mode) *SortTable {
	return &SortTable{mode: m, seen: map[string]string{}, structs: map[string]*types.Struct{}, fields: map[string][]string{}, typeIDs: map[string]int{}, typeOf: map[int]types.Type{}}
}

func (st *SortTable) idx() string {
	if st.mode == ModeBV {
		return "(_ BitVec 64)"
	}
	return "Int"
}

func (st *SortTable) byteSort() string {
	if st.mode == ModeBV {
		return "(_ BitVec 8)"
	}
	return "Int"
}

func (st *SortTable) typeID(t types.Type) int {
	s := typeStr(t)
	if id, ok := st.typeIDs[s]; ok {
		return id
	}
	id := len(st.typeIDs) + 1
	st.typeIDs[s] = id
	st.typeOf[id] = t
	return id
}

// sortOf maps a Go type to an SMT sort.
func (st *SortTable) sortOf(t types.Type) string {
	if t == nil {
		return "Int"
	}
	switch u := t.Underlying().(type) {
	case *types.Basic:
		switch {
		case u.Kind() == types.Bool || u.Kind() == types.UntypedBool:
			return "Bool"
		case u.Kind() == types.String || u.Kind() == types.UntypedString:
			return "Str"
		case u.Kind() == types.Float64 || u.Kind() == types.Float32 || u.Kind() == types.UntypedFloat:
			return "Float"
		case u.Kind() == types.UnsafePointer:
			return "Ref"
		case u.Kind() == types.UntypedNil:
			return "Ref"
		}
		if w, _, ok := intWidth(u); ok {
			if st.mode == ModeBV {
				return fmt.Sprintf("(_ BitVec %d)", w)
			}
			return "Int"
		}
		return "Int"
	case *types.Pointer, *types.Map, *types.Chan, *types.Signature:
		return "Ref"
	case *types.Slice:
		return "Slice"
	case *types.Interface:
		return "Iface"
	case *types.Array:
		return fmt.Sprintf("(Array %s %s)", st.idx(), st.sortOf(u.Elem()))
	case *types.Struct:
		return st.structSort(t, u)
	case *types.Tuple:
		return "Int"
	case *types.TypeParam:
		return "Iface"
	}
	return "Int"
}

func (st *SortTable) structSort(t types.Type, u *types.Struct) string {
	ts := typeStr(t)
	if s, ok := st.seen[ts]; ok {
		return s
	}
	name := q("S:" + ts)
	st.seen[ts] = name
	st.structs[name] = u
	var fs []string
	var accs []string
	for i := 0; i < u.NumFields(); i++ {
		f := u.Field(i)
		acc := st.fieldAccIdx(t, u, i)
		accs = append(accs, acc)
		fs = append(fs, fmt.Sprintf("(%s %s)", acc, st.sortOf(f.Type())))
	}
	st.fields[name] = accs
	if u.NumFields() == 0 {
		st.decls = append(st.decls, fmt.Sprintf("(declare-datatypes ((%s 0)) (((%s))))", name, q("mk:"+ts)))
	} else {
		st.decls = append(st.decls, fmt.Sprintf("(declare-datatypes ((%s 0)) (((%s %s))))", name, q("mk:"+ts), strings.Join(fs, " ")))
	}
	return name
}

func (st *SortTable) structCtor(t types.Type) string { return q("mk:" + typeStr(t)) }
func (st *SortTable) fieldAcc(t types.Type, name string) string {
	if name == "_" {
		panic("fieldAcc on blank field")
	}
	return q("fld:" + typeStr(t) + "." + name)
}

func (st *SortTable) fieldAccIdx(t types.Type, u *types.Struct, i int) string {
	if u.Field(i).Name() == "_" {
		return q(fmt.Sprintf("fld:%s._%d", typeStr(t), i))
	}
	return st.fieldAcc(t, u.Field(i).Name())
}

// ghostSort maps a sort name used in contracts to SMT.
func (st *SortTable) ghostSort(s string) string {
	switch s {
	case "int":
		return st.idx()
	case "byte":
		return st.byteSort()
	case "bool":
		return "Bool"
	case "ref":
		return "Ref"
	case "string", "str":
		return "Str"
	case "iface", "value":
		return "Iface"
	case "slice":
		return "Slice"
	case "seq":
		return "Seq"
	case "refset":
		return "(Array Ref Bool)"
	case "strset":
		return "(Array Str Bool)"
	case "ifaceset":
		return "(Array Iface Bool)"
	case "strintmap":
		return fmt.Sprintf("(Array Str %s)", st.idx())
	}
	if strings.HasPrefix(s, "smt:") {
		r := strings.ReplaceAll(strings.TrimPrefix(s, "smt:"), "~", " ")
		r = strings.ReplaceAll(r, "IDX", st.idx())
		r = strings.ReplaceAll(r, "BYTE", st.byteSort())
		return r
	}
	switch s {
	case "bv8", "bv16", "bv32", "bv64", "i64", "i32":
		if st.mode == ModeInt {
			return "Int"
		}
		switch s {
		case "bv8":
			return "(_ BitVec 8)"
		case "bv16":
			return "(_ BitVec 16)"
		case "bv32", "i32":
			return "(_ BitVec 32)"
		}
		return "(_ BitVec 64)"
	case "float":
		return "Float"
	}
	return s
}

// ---- integer helpers (mode dependent) ----

func bvLit(n *big.Int, w int) string {
	m := new(big.Int).Lsh(big.NewInt(1), uint(w))
	v := new(big.Int).Mod(n, m)
	return fmt.Sprintf("(_ bv%s %d)", v.String(), w)
}

func (st *SortTable) intLit(n *big.Int, t types.Type) string {
	if st.mode == ModeBV {
		w, _ := intInfo(t)
		return bvLit(n, w)
	}
	if n.Sign() < 0 {
		return "(- " + new(big.Int).Neg(n).String() + ")"
	}
	return n.String()
}

func (st *SortTable) idxLit(n int64) string {
	return st.intLit(big.NewInt(n), types.Typ[types.Int])
}

func (st *SortTable) byteLit(n int64) string {
	return st.intLit(big.NewInt(n), types.Typ[types.Uint8])
}

// zero value of a Go type.
func (st *SortTable) zero(t types.Type) string {
	switch u := t.Underlying().(type) {
	case *types.Basic:
		switch st.sortOf(t) {
		case "Bool":
			return "false"
		case "Str":
			return "gs.empty"
		case "Float":
			return "float.zero"
		case "Ref":
			return "null"
		}
		return st.intLit(big.NewInt(0), t)
	case *types.Pointer, *types.Map, *types.Chan, *types.Signature:
		return "null"
	case *types.Slice:
		return "slice.nil"
	case *types.Interface:
		return "iface.nil"
	case *types.Array:
		return fmt.Sprintf("((as const %s) %s)", st.sortOf(t), st.zero(u.Elem()))
	case *types.Struct:
		st.sortOf(t)
		if u.NumFields() == 0 {
			return st.structCtor(t)
		}
		var fs []string
		for i := 0; i < u.NumFields(); i++ {
			fs = append(fs, st.zero(u.Field(i).Type()))
		}
		return "(" + st.structCtor(t) + " " + strings.Join(fs, " ") + ")"
	}
	return "0"
}

func (st *SortTable) constTerm(c constant.Value, t types.Type) (string, bool) {
	switch c.Kind() {
	case constant.Bool:
		if constant.BoolVal(c) {
			return "true", true
		}
		return "false", true
	case constant.Int:
		if isInt(t) {
			n, ok := new(big.Int).SetString(c.ExactString(), 10)
			if !ok {
				return "", false
			}
			return st.intLit(n, t), true
		}
	}
	return "", false
}

// range assumption for an integer-typed term in int mode.
func (st *SortTable) rangeOf(term string, t types.Type) string {
	if st.mode != ModeInt || !isInt(t) {
		return ""
	}
	w, signed := intInfo(t)
	if signed {
		lo := new(big.Int).Neg(new(big.Int).Lsh(big.NewInt(1), uint(w-1)))
		hi := new(big.Int).Sub(new(big.Int).Lsh(big.NewInt(1), uint(w-1)), big.NewInt(1))
		return fmt.Sprintf("(and (<= %s %s) (<= %s %s))", st.intLit(lo, t), term, term, hi.String())
	}
	hi := new(big.Int).Sub(new(big.Int).Lsh(big.NewInt(1), uint(w)), big.NewInt(1))
	return fmt.Sprintf("(and (<= 0 %s) (<= %s %s))", term, term, hi.String())
}

// wrap converts an Int-mode term to the range of type t (Go conversion semantics).
func (st *SortTable) wrapInt(term string, t types.Type) string {
	w, signed := intInfo(t)
	m := new(big.Int).Lsh(big.NewInt(1), uint(w)).String()
	if !signed {
		return fmt.Sprintf("(mod %s %s)", term, m)
	}
	h := new(big.Int).Lsh(big.NewInt(1), uint(w-1)).String()
	return fmt.Sprintf("(- (mod (+ %s %s) %s) %s)", term, h, m, h)
}

func (st *SortTable) binInt(op token.Token, x, y string, t types.Type, yt types.Type) (string, bool) {
	if st.mode == ModeInt {
		switch op {
		case token.ADD:
			return fmt.Sprintf("(+ %s %s)", x, y), true
		case token.SUB:
			return fmt.Sprintf("(- %s %s)", x, y), true
		case token.MUL:
			return fmt.Sprintf("(* %s %s)", x, y), true
		case token.QUO:
			// Go truncated division
			return fmt.Sprintf("(go.div %s %s)", x, y), true
		case token.REM:
			return fmt.Sprintf("(go.rem %s %s)", x, y), true
		case token.SHL, token.SHR, token.AND, token.OR, token.XOR, token.AND_NOT:
			return "", false
		}
		return "", false
	}
	w, signed := intInfo(t)
	switch op {
	case token.ADD:
		return fmt.Sprintf("(bvadd %s %s)", x, y), true
	case token.SUB:
		return fmt.Sprintf("(bvsub %s %s)", x, y), true
	case token.MUL:
		return fmt.Sprintf("(bvmul %s %s)", x, y), true
	case token.QUO:
		if signed {
			return fmt.Sprintf("(bvsdiv %s %s)", x, y), true
		}
		return fmt.Sprintf("(bvudiv %s %s)", x, y), true
	case token.REM:
		if signed {
			return fmt.Sprintf("(bvsrem %s %s)", x, y), true
		}
		return fmt.Sprintf("(bvurem %s %s)", x, y), true
	case token.AND:
		return fmt.Sprintf("(bvand %s %s)", x, y), true
	case token.OR:
		return fmt.Sprintf("(bvor %s %s)", x, y), true
	case token.XOR:
		return fmt.Sprintf("(bvxor %s %s)", x, y), true
	case token.AND_NOT:
		return fmt.Sprintf("(bvand %s (bvnot %s))", x, y), true
	case token.SHL, token.SHR:
		// bring shift count to operand width (counts are unsigned or non-negative)
		yw, _ := intInfo(yt)
		ys := y
		if yw < w {
			ys = fmt.Sprintf("((_ zero_extend %d) %s)", w-yw, y)
		} else if yw > w {
			// saturate: if any high bit set, shift >= width
			ys = fmt.Sprintf("(ite (bvuge %s %s) %s ((_ extract %d 0) %s))", y, bvLit(big.NewInt(int64(w)), yw), bvLit(big.NewInt(int64(w)), w), w-1, y)
		}
		if op == token.SHL {
			return fmt.Sprintf("(bvshl %s %s)", x, ys), true
		}
		if signed {
			return fmt.Sprintf("(bvashr %s %s)", x, ys), true
		}
		return fmt.Sprintf("(bvlshr %s %s)", x, ys), true
	}
	return "", false
}

func (st *SortTable) cmpInt(op token.Token, x, y string, t types.Type) string {
	if st.mode == ModeInt {
		switch op {
		case token.LSS:
			return fmt.Sprintf("(< %s %s)", x, y)
		case token.LEQ:
			return fmt.Sprintf("(<= %s %s)", x, y)
		case token.GTR:
			return fmt.Sprintf("(> %s %s)", x, y)
		case token.GEQ:
			return fmt.Sprintf("(>= %s %s)", x, y)
		}
	}
	_, signed := intInfo(t)
	p := "bvu"
	if signed {
		p = "bvs"
	}
	switch op {
	case token.LSS:
		return fmt.Sprintf("(%slt %s %s)", p, x, y)
	case token.LEQ:
		return fmt.Sprintf("(%sle %s %s)", p, x, y)
	case token.GTR:
		return fmt.Sprintf("(%sgt %s %s)", p, x, y)
	case token.GEQ:
		return fmt.Sprintf("(%sge %s %s)", p, x, y)
	}
	return "false"
}

// convInt converts an integer term from type ft to type tt.
func (st *SortTable) convInt(x string, ft, tt types.Type) string {
	fw, fs := intInfo(ft)
	tw, ts := intInfo(tt)
	if st.mode == ModeInt {
		// identity when the source range is contained in the target range
		if (fs == ts && fw <= tw) || (!fs && ts && fw < tw) {
			return x
		}
		return st.wrapInt(x, tt)
	}
	switch {
	case tw == fw:
		return x
	case tw < fw:
		return fmt.Sprintf("((_ extract %d 0) %s)", tw-1, x)
	default:
		if fs {
			return fmt.Sprintf("((_ sign_extend %d) %s)", tw-fw, x)
		}
		return fmt.Sprintf("((_ zero_extend %d) %s)", tw-fw, x)
	}
}

func (st *SortTable) prelude(body string) string {
	var b strings.Builder
	b.WriteString("(set-option :produce-models true)\n(set-logic ALL)\n")
	idx := st.idx()
	byt := st.byteSort()
	var p string
	if st.mode == ModeInt {
		p = `
(define-fun idx.add ((a Int) (b Int)) Int (+ a b))
(define-fun idx.sub ((a Int) (b Int)) Int (- a b))
(define-fun idx.le ((a Int) (b Int)) Bool (<= a b))
(define-fun idx.lt ((a Int) (b Int)) Bool (< a b))
(define-fun idx.zero () Int 0)
(define-fun byte.ok ((b Int)) Bool (and (<= 0 b) (< b 256)))
(define-fun go.div ((a Int) (b Int)) Int (ite (>= a 0) (ite (> b 0) (div a b) (- (div a (- b)))) (ite (> b 0) (- (div (- a) b)) (div (- a) (- b)))))
(define-fun go.rem ((a Int) (b Int)) Int (- a (* b (go.div a b))))
`
	} else {
		p = `
(define-fun idx.add ((a (_ BitVec 64)) (b (_ BitVec 64))) (_ BitVec 64) (bvadd a b))
(define-fun idx.sub ((a (_ BitVec 64)) (b (_ BitVec 64))) (_ BitVec 64) (bvsub a b))
(define-fun idx.le ((a (_ BitVec 64)) (b (_ BitVec 64))) Bool (bvsle a b))
(define-fun idx.lt ((a (_ BitVec 64)) (b (_ BitVec 64))) Bool (bvslt a b))
(define-fun idx.zero () (_ BitVec 64) (_ bv0 64))
(define-fun byte.ok ((b (_ BitVec 8))) Bool true)
`
	}
	b.WriteString(p)
	common := `
(declare-sort Ref 0)
(declare-const null Ref)
(declare-sort Str 0)
(declare-sort Float 0)
(declare-const float.zero Float)
(declare-fun gs.len (Str) IDX)
(declare-fun gs.at (Str IDX) BYTE)
(declare-const gs.empty Str)
(assert (= (gs.len gs.empty) idx.zero))
(assert (forall ((s Str)) (! (idx.le idx.zero (gs.len s)) :pattern ((gs.len s)))))
(assert (forall ((s Str)) (! (=> (= (gs.len s) idx.zero) (= s gs.empty)) :pattern ((gs.len s)))))
(assert (forall ((s Str) (i IDX)) (! (byte.ok (gs.at s i)) :pattern ((gs.at s i)))))
(declare-fun gs.sub (Str IDX IDX) Str)
(assert (forall ((s Str) (lo IDX) (hi IDX)) (! (=> (and (idx.le idx.zero lo) (idx.le lo hi)) (= (gs.len (gs.sub s lo hi)) (idx.sub hi lo))) :pattern ((gs.sub s lo hi)))))
(assert (forall ((s Str) (lo IDX) (hi IDX) (i IDX)) (! (=> (and (idx.le idx.zero i) (idx.lt i (idx.sub hi lo))) (= (gs.at (gs.sub s lo hi) i) (gs.at s (idx.add lo i)))) :pattern ((gs.at (gs.sub s lo hi) i)))))
(assert (forall ((s Str)) (! (= (gs.sub s idx.zero (gs.len s)) s) :pattern ((gs.sub s idx.zero (gs.len s))))))
(declare-fun gs.cat (Str Str) Str)
(assert (forall ((a Str) (b Str)) (! (= (gs.len (gs.cat a b)) (idx.add (gs.len a) (gs.len b))) :pattern ((gs.cat a b)))))
(assert (forall ((a Str) (b Str) (i IDX)) (! (= (gs.at (gs.cat a b) i) (ite (idx.lt i (gs.len a)) (gs.at a i) (gs.at b (idx.sub i (gs.len a))))) :pattern ((gs.at (gs.cat a b) i)))))
(assert (forall ((a Str)) (! (= (gs.cat a gs.empty) a) :pattern ((gs.cat a gs.empty)))))
(assert (forall ((a Str)) (! (= (gs.cat gs.empty a) a) :pattern ((gs.cat gs.empty a)))))
(declare-datatypes ((Slice 0)) (((mkslice (sl.arr Ref) (sl.off IDX) (sl.len IDX) (sl.cap IDX)))))
(define-fun slice.nil () Slice (mkslice null idx.zero idx.zero idx.zero))
(define-fun slice.wf ((s Slice)) Bool (and (idx.le idx.zero (sl.off s)) (idx.le idx.zero (sl.len s)) (idx.le (sl.len s) (sl.cap s))))
(declare-datatypes ((Iface 0)) (((iface.nil) (iface.ref (ifr.t Int) (ifr.v Ref)) (iface.int (ifi.t Int) (ifi.v IDX)) (iface.str (ifs.t Int) (ifs.v Str)) (iface.bool (ifb.t Int) (ifb.v Bool)) (iface.slice (ifl.t Int) (ifl.v Slice)) (iface.val (ifv.t Int) (ifv.v Int)))))
(declare-fun iface.typ (Iface) Int)
(declare-fun iface.wf (Iface) Bool)
(assert (= (iface.typ iface.nil) 0))
(assert (forall ((t Int) (x Ref)) (! (= (iface.typ (iface.ref t x)) t) :pattern ((iface.ref t x)))))
(assert (forall ((t Int) (x IDX)) (! (= (iface.typ (iface.int t x)) t) :pattern ((iface.int t x)))))
(assert (forall ((t Int) (x Str)) (! (= (iface.typ (iface.str t x)) t) :pattern ((iface.str t x)))))
(assert (forall ((t Int) (x Bool)) (! (= (iface.typ (iface.bool t x)) t) :pattern ((iface.bool t x)))))
(assert (forall ((t Int) (x Slice)) (! (= (iface.typ (iface.slice t x)) t) :pattern ((iface.slice t x)))))
(assert (forall ((t Int) (x Int)) (! (= (iface.typ (iface.val t x)) t) :pattern ((iface.val t x)))))
(assert (forall ((v Iface)) (! (= (iface.typ v) (ite ((_ is iface.ref) v) (ifr.t v) (ite ((_ is iface.int) v) (ifi.t v) (ite ((_ is iface.str) v) (ifs.t v) (ite ((_ is iface.bool) v) (ifb.t v) (ite ((_ is iface.slice) v) (ifl.t v) (ite ((_ is iface.val) v) (ifv.t v) 0))))))) :pattern ((iface.typ v)))))
(declare-fun implements (Int Int) Bool)
(declare-fun fslot (Ref Int) Ref)
(declare-fun fslot.owner (Ref) Ref)
(declare-fun fslot.fid (Ref) Int)
(assert (forall ((o Ref) (i Int)) (! (and (= (fslot.owner (fslot o i)) o) (= (fslot.fid (fslot o i)) i)) :pattern ((fslot o i)))))
(declare-fun sl.get.byte ((Array IDX BYTE) IDX IDX) BYTE)
(assert (forall ((a (Array IDX BYTE)) (o IDX) (i IDX)) (! (= (sl.get.byte a o i) (select a (idx.add o i))) :pattern ((sl.get.byte a o i)))))
(declare-fun gs.of (Ref (Array IDX BYTE) IDX IDX) Str)
(assert (forall ((r Ref) (a (Array IDX BYTE)) (o IDX) (n IDX)) (! (=> (idx.le idx.zero n) (= (gs.len (gs.of r a o n)) n)) :pattern ((gs.of r a o n)))))
(assert (forall ((r Ref) (a (Array IDX BYTE)) (o IDX) (n IDX) (i IDX)) (! (=> (and (idx.le idx.zero i) (idx.lt i n) (byte.ok (sl.get.byte a o i))) (= (gs.at (gs.of r a o n) i) (sl.get.byte a o i))) :pattern ((gs.at (gs.of r a o n) i)))))
`
	common = strings.NewReplacer("IDX", idx, "BYTE", byt).Replace(common)
	// quantified axioms are included only when the symbol they define occurs in the script
	for _, line := range strings.Split(common, "\n") {
		if strings.HasPrefix(line, "(assert (forall") {
			sym := ""
			switch {
			case strings.Contains(line, "fslot"):
				sym = "fslot"
			case strings.Contains(line, "iface.typ"):
				sym = "iface.typ"
			case strings.Contains(line, "gs.of"):
				sym = "gs.of"
			case strings.Contains(line, "sl.get.byte"):
				sym = "sl.get.byte"
			case strings.Contains(line, "gs.sub"):
				sym = "gs.sub"
			case strings.Contains(line, "gs.cat"):
				sym = "gs.cat"
			case strings.Contains(line, "gs.at"):
				sym = "gs.at"
			case strings.Contains(line, "gs.len"):
				sym = "gs.len"
			}
			if sym != "" && !strings.Contains(body, sym) {
				continue
			}
		}
		b.WriteString(line + "\n")
	}
	return b.String()
}

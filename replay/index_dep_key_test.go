package dawn

// Replay harness for (*dawn.Project).loadIndex/registers#step:.../dependency-keys-are-labels: a record
// whose dependency table has a key that is not a label (corrupted record) must surface as an error
// (the index load fails and the full load takes over), not as a panic when the index target's
// dependencies are listed (`dawn graph`, `dawn list`).

import (
	"encoding/json"
	"os"
	"path/filepath"
	"strings"
	"testing"

	"github.com/pgavlin/dawn/label"
)

func TestVerifReplayIndexDepKey(t *testing.T) {
	dir := t.TempDir()
	write := func(name, s string) {
		if err := os.WriteFile(filepath.Join(dir, name), []byte(s), 0o644); err != nil {
			t.Fatal(err)
		}
	}
	write(".dawnconfig", "")
	write("in.txt", "x\n")
	write("BUILD.dawn", "@target(sources=[\"in.txt\"], default=True)\ndef top():\n    print(\"hi\")\n")
	proj, err := Load(dir, &LoadOptions{})
	if err != nil {
		t.Fatal(err)
	}
	l, _ := label.Parse("//:default")
	if err := proj.Run(l, nil); err != nil {
		t.Fatal(err)
	}
	// corrupt the record of //:top: one dependency key is not a label
	var recPath string
	filepath.Walk(filepath.Join(dir, ".dawn"), func(p string, fi os.FileInfo, err error) error {
		if err == nil && !fi.IsDir() && strings.Contains(filepath.Base(p), "top") {
			recPath = p
		}
		return nil
	})
	if recPath == "" {
		t.Fatal("record of //:top not found")
	}
	raw, _ := os.ReadFile(recPath)
	var rec map[string]interface{}
	if err := json.Unmarshal(raw, &rec); err != nil {
		t.Fatal(err)
	}
	deps, _ := rec["dependencies"].(map[string]interface{})
	if deps == nil {
		deps = map[string]interface{}{}
	}
	deps["a:b:c:::"] = "x"
	rec["dependencies"] = deps
	out, _ := json.Marshal(rec)
	os.WriteFile(recPath, out, 0o644)

	defer func() {
		if x := recover(); x != nil {
			t.Fatalf("listing the dependencies of an index target panicked on a corrupted record: %v", x)
		}
	}()
	proj2, err := Load(dir, &LoadOptions{PreferIndex: true})
	if err != nil {
		return // reported error: fine
	}
	for _, tg := range proj2.Targets() {
		_ = tg.Dependencies()
	}
}

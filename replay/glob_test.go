package util

// Replay harness for util.CompileGlobs anchoring obligations: a glob set matches a path exactly when
// at least one pattern matches the whole path.

import "testing"

func TestVerifReplayGlobAnchoring(t *testing.T) {
	re, err := CompileGlobs([]string{"*.go", "*.c"})
	if err != nil {
		t.Fatal(err)
	}
	for _, c := range []struct {
		path string
		want bool
	}{{"a.go", true}, {"b.c", true}, {"a.go.bak", false}, {"x/a.c", false}, {"a.gox", false}, {"xa.c", true}} {
		if got := re.MatchString(c.path); got != c.want {
			t.Errorf("globs [*.go *.c] (regexp %q): match(%q) = %v, want %v", re.String(), c.path, got, c.want)
		}
	}
}

package dawn

// Replay harness for the C03 reading of (*dawn.runTarget).Evaluate#post:restamped-after-dependency-change:
// the build process dies after a dependency re-executed and before its dependent started. The next
// build must re-execute the dependent. The crash is a real process exit (the build runs in a child
// process that exits when //:top is announced as evaluating).

import (
	"os"
	"os/exec"
	"path/filepath"
	"testing"

	"github.com/pgavlin/dawn/diff"
	"github.com/pgavlin/dawn/label"
	starlark_os "github.com/pgavlin/dawn/lib/os"
	starlark_sh "github.com/pgavlin/dawn/lib/sh"
	starlark_json "go.starlark.net/lib/json"
	"go.starlark.net/starlark"
)

type verifCrashEvents struct {
	discardEventsT
	at string
}

func (e verifCrashEvents) TargetEvaluating(l *label.Label, reason string, d diff.ValueDiff) {
	if l.String() == e.at {
		os.Exit(77)
	}
}

// TestVerifCrashChild is the child process: it builds //:default in $VERIF_CRASH_DIR and dies when
// $VERIF_CRASH_AT starts evaluating.
func TestVerifCrashChild(t *testing.T) {
	dir := os.Getenv("VERIF_CRASH_DIR")
	if dir == "" {
		t.Skip("child only")
	}
	l, _ := label.Parse("//:default")
	proj, err := Load(dir, &LoadOptions{Events: verifCrashEvents{at: os.Getenv("VERIF_CRASH_AT")}, Builtins: starlark.StringDict{"json": starlark_json.Module, "os": starlark_os.Module, "sh": starlark_sh.Module}})
	if err != nil {
		t.Fatal(err)
	}
	proj.Run(l, nil)
}

func TestVerifReplayCrashBuild(t *testing.T) {
	dir := t.TempDir()
	write := func(name, s string) {
		if err := os.WriteFile(filepath.Join(dir, name), []byte(s), 0o644); err != nil {
			t.Fatal(err)
		}
	}
	read := func(name string) string {
		b, _ := os.ReadFile(filepath.Join(dir, name))
		return string(b)
	}
	write(".dawnconfig", "")
	write("BUILD.dawn", verifCrashBuildFile)
	write("in.txt", "version 1\n")
	verifCrashBuild(t, dir, "//:default")
	write("in.txt", "version 2\n")

	cmd := exec.Command(os.Args[0], "-test.run=^TestVerifCrashChild$", "-test.count=1")
	cmd.Env = append(os.Environ(), "VERIF_CRASH_DIR="+dir, "VERIF_CRASH_AT=//:top")
	out, err := cmd.CombinedOutput()
	if ee, ok := err.(*exec.ExitError); !ok || ee.ExitCode() != 77 {
		t.Fatalf("child did not die at //:top: %v\n%s", err, out)
	}
	if read("mid.out") != "version 2\n" || read("top.out") != "version 1\n" {
		t.Fatalf("unexpected state after the crash: mid.out=%q top.out=%q", read("mid.out"), read("top.out"))
	}
	verifCrashBuild(t, dir, "//:default")
	if got := read("top.out"); got != "version 2\n" {
		t.Fatalf("after a build that died between //:mid and //:top, the next successful build left top.out = %q: //:top is remembered as up to date", got)
	}
}

const verifCrashBuildFile = `
@target(sources=["in.txt"], generates=["mid.out"])
def mid():
    sh.exec("cp in.txt mid.out")

@target(deps=[mid], generates=["top.out"], default=True)
def top():
    sh.exec("cp mid.out top.out")
`

func verifCrashBuild(t *testing.T, dir, rawlabel string) {
	t.Helper()
	l, err := label.Parse(rawlabel)
	if err != nil {
		t.Fatal(err)
	}
	proj, err := Load(dir, &LoadOptions{Builtins: starlark.StringDict{"json": starlark_json.Module, "os": starlark_os.Module, "sh": starlark_sh.Module}})
	if err != nil {
		t.Fatal(err)
	}
	if err := proj.Run(l, nil); err != nil {
		t.Fatalf("build %s: %v", rawlabel, err)
	}
}

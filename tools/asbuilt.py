#!/usr/bin/env python3
"""Emit the per-property 'as built' markdown (DESIGN.md section 10.3) from props.json, baselines and evidence."""
import json, os
props = json.load(open('/verif/props.json'))
ids = [json.loads(l)['id'] for l in open('/verif/properties.jsonl')]
for pid in ids:
    p = props.get(pid)
    if not p:
        continue
    base = [l.strip() for l in open(f'/verif/baseline/{pid}.txt') if l.strip()]
    ev = {}
    if os.path.exists(f'/verif/evidence/{pid}.json'):
        ev = json.load(open(f'/verif/evidence/{pid}.json'))
    cov = ev.get('coverage', {})
    print(f"#### {pid} — {p['title']}\n")
    print(f"*Functions under contract* ({len(p['functions'])}): " + ', '.join('`%s`' % f for f in p['functions']) + ".")
    if p.get('lemmas'):
        print("*Lemmas*: " + ', '.join('`%s`' % l for l in p['lemmas']) + ".")
    print(f"*Claimed obligation groups*: {len(base)} (baseline/{pid}.txt); last quick run: {cov.get('generated_obligations','?')} obligations generated, {cov.get('generated_discharged','?')} unsat, back ends {json.dumps(cov.get('backends',{}))}, {ev.get('wall_s',0):.0f} s.\n")
    print("*Decided*: " + p.get('level_text', '') + "\n")
    for b in p.get('bounded') or []:
        print(f"*Bounded stand-in (never counted as proved)* `{b['name']}`: {b['bound']}.\n")
    if p.get('undecided'):
        print("*Not decided*: " + '; '.join(p['undecided']) + ".\n")
    if p.get('assumptions'):
        print("*Assumed*: " + '; '.join(p['assumptions']) + ".\n")

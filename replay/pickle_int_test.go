package pickle

// Replay harness for the decoder's scalar step obligations: integers of every width class round-trip.

import (
	"bytes"
	"testing"

	"go.starlark.net/starlark"
)

func TestVerifReplayIntRoundTrip(t *testing.T) {
	for _, v := range []int64{0, 1, 255, 256, 257, 2048, 65535, 65536, -1, -256, 1<<31 - 1, -(1 << 31), 1 << 31, 1 << 40} {
		var buf bytes.Buffer
		if err := NewEncoder(&buf, nil).Encode(starlark.MakeInt64(v)); err != nil {
			t.Fatalf("encode %d: %v", v, err)
		}
		got, err := NewDecoder(&buf, nil).Decode()
		if err != nil {
			t.Fatalf("decode %d: %v", v, err)
		}
		i, ok := got.(starlark.Int)
		if !ok {
			t.Fatalf("decode %d: got %T", v, got)
		}
		if g, ok := i.Int64(); !ok || g != v {
			t.Errorf("Decode(Encode(%d)) = %v", v, got)
		}
	}
}

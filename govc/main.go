package main

import (
	"flag"
	"fmt"
	"os"
	"path/filepath"
	"sort"
	"strings"
	"time"
)

var (
	verifDir = "/verif"
	repoDir  = "/repo"
)

func usage() {
	fmt.Fprintln(os.Stderr, `usage:
  govc dump   <pkgpattern> <funckey>          print SSA and loop ordinals
  govc vc     <pkgpattern>... -- <funckey>... encode and discharge the contracts of functions
  govc check  <property> [--tier quick|thorough]
  govc keys   <pkgpattern>                    list function keys`)
	os.Exit(2)
}

func main() {
	if v := os.Getenv("VERIF_DIR"); v != "" {
		verifDir = v
	}
	if v := os.Getenv("VERIF_REPO"); v != "" {
		repoDir = v
	}
	if len(os.Args) < 2 {
		usage()
	}
	switch os.Args[1] {
	case "dump":
		cmdDump(os.Args[2:])
	case "keys":
		cmdKeys(os.Args[2:])
	case "vc":
		cmdVC(os.Args[2:])
	case "check":
		os.Exit(cmdCheck(os.Args[2:]))
	case "selftest":
		os.Exit(cmdSelftest(os.Args[2:]))
	default:
		usage()
	}
}

func mustWorld(patterns []string, overlay map[string][]byte) *World {
	w, err := LoadWorld(repoDir, patterns, overlay)
	if err != nil {
		fmt.Fprintln(os.Stderr, "load:", err)
		os.Exit(2)
	}
	if err := w.LoadAssumed(filepath.Join(verifDir, "contracts", "assumed")); err != nil {
		fmt.Fprintln(os.Stderr, "assumed contracts:", err)
		os.Exit(2)
	}
	return w
}

func cmdKeys(args []string) {
	w := mustWorld(args, nil)
	var ks []string
	for k := range w.FnByKey {
		ks = append(ks, k)
	}
	sort.Strings(ks)
	for _, k := range ks {
		fmt.Println(k)
	}
}

func cmdDump(args []string) {
	if len(args) < 2 {
		usage()
	}
	w := mustWorld(args[:1], nil)
	fn := w.FnByKey[args[1]]
	if fn == nil {
		fmt.Fprintln(os.Stderr, "no such function; try govc keys")
		os.Exit(2)
	}
	fn.WriteTo(os.Stdout)
	e := NewEnc(w, fn, nil)
	e.analyzeCFG()
	for _, li := range e.loopList {
		fmt.Printf("loop L%d [over %q]: header block %d (%s) at %s, back edges from", li.ordinal, li.name, li.header.Index, li.header.Comment, e.pos(li.header.Instrs[0].Pos()))
		for _, b := range li.backs {
			fmt.Printf(" %d", b.Index)
		}
		fmt.Println()
	}
}

// encodeFunc encodes all contract variants of a function and returns obligations with scripts.
func encodeFunc(w *World, key string) ([]*workItem, []*Enc, error) {
	fn := w.FnByKey[key]
	if fn == nil {
		return nil, nil, fmt.Errorf("function %s not found in /repo (stale contract?)", key)
	}
	variants := w.contractsFor(key)
	if len(variants) == 0 {
		variants = []*FuncContract{nil}
	}
	var items []*workItem
	var encs []*Enc
	for _, fc := range variants {
		if fc != nil && (fc.Trusted || fc.Assumed) {
			continue
		}
		e := NewEnc(w, fn, fc)
		if err := e.Encode(); err != nil {
			return nil, nil, err
		}
		encs = append(encs, e)
		for _, o := range e.obls {
			it := &workItem{o: o}
			if !o.Static {
				it.script = e.script(o)
			}
			items = append(items, it)
		}
	}
	return items, encs, nil
}

func cmdVC(args []string) {
	fs := flag.NewFlagSet("vc", flag.ExitOnError)
	timeout := fs.Int("t", 20, "per-obligation timeout (s)")
	verbose := fs.Bool("v", false, "verbose")
	keep := fs.String("out", "/tmp/govc-out", "output dir")
	only := fs.String("only", "", "substring filter on obligation names")
	var pats, keys []string
	i := 0
	for ; i < len(args) && args[i] != "--"; i++ {
		pats = append(pats, args[i])
	}
	rest := []string{}
	if i < len(args) {
		rest = args[i+1:]
	}
	var flagArgs []string
	for _, a := range rest {
		if strings.HasPrefix(a, "-") && len(keys) == 0 {
			flagArgs = append(flagArgs, a)
		} else {
			keys = append(keys, a)
		}
	}
	fs.Parse(flagArgs)
	t0 := time.Now()
	w := mustWorld(pats, nil)
	fmt.Fprintf(os.Stderr, "loaded in %v\n", time.Since(t0))
	var all []*workItem
	for _, k := range keys {
		items, encs, err := encodeFunc(w, k)
		if err != nil {
			fmt.Println("ERROR", err)
			continue
		}
		for _, e := range encs {
			if *verbose {
				var ns []string
				for n := range e.notes {
					ns = append(ns, n)
				}
				sort.Strings(ns)
				for _, n := range ns {
					fmt.Println("  note:", n)
				}
			}
		}
		for _, it := range items {
			if *only == "" || strings.Contains(it.o.Name, *only) {
				all = append(all, it)
			}
		}
	}
	solveAll(all, *keep, *timeout, 16)
	for _, it := range all {
		o := it.o
		status := o.Result
		if o.Cover {
			if o.Result == "sat" || o.Result == "unknown" || o.Result == "timeout" {
				status = "covered:" + o.Result
			} else {
				status = "COVER-FAIL(" + o.Result + ")"
			}
		} else if o.Result == "unsat" {
			status = "ok"
		} else {
			status = "FAIL(" + o.Result + ")"
		}
		fmt.Printf("%-14s %-8s %6dms %s  [%s]\n", status, o.Backend, o.Ms, o.Name, o.Pos)
		if *verbose && o.Result == "sat" && !o.Cover {
			fmt.Println("    model:", strings.ReplaceAll(o.Model, "\n", " "))
		}
		if o.Result == "error" {
			fmt.Println("    ", strings.ReplaceAll(o.Model, "\n", " "))
		}
	}
	fmt.Fprintf(os.Stderr, "total %v\n", time.Since(t0))
}

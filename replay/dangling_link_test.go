package dawn

// Replay harness for dawn.dirSum#post:never-reports-the-directory-missing: a dangling symbolic link
// inside a source directory must not make the whole directory look like a missing file (empty
// checksum), which would hide every later edit inside the directory.

import (
	"os"
	"path/filepath"
	"testing"
)

func TestVerifReplayDanglingLink(t *testing.T) {
	dir := t.TempDir()
	src := filepath.Join(dir, "src")
	if err := os.MkdirAll(src, 0o755); err != nil {
		t.Fatal(err)
	}
	if err := os.WriteFile(filepath.Join(src, "a.txt"), []byte("one"), 0o644); err != nil {
		t.Fatal(err)
	}
	if err := os.Symlink(filepath.Join(dir, "does-not-exist"), filepath.Join(src, "dangling")); err != nil {
		t.Skip("symlinks not available")
	}
	s1, err1 := fileSum(src)
	if err := os.WriteFile(filepath.Join(src, "a.txt"), []byte("two"), 0o644); err != nil {
		t.Fatal(err)
	}
	s2, err2 := fileSum(src)
	if err1 != nil && os.IsNotExist(err1) || err2 != nil && os.IsNotExist(err2) {
		t.Fatalf("fileSum of an existing directory reports it missing (%v): sourceFile.upToDate then records the empty checksum and no edit inside the directory is ever noticed", err1)
	}
	if err1 == nil && err2 == nil && s1 == s2 {
		t.Fatalf("edit inside a source directory with a dangling link not reflected in its checksum")
	}
}

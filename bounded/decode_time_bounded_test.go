package pickle

// BOUNDED stand-in (not a proof) for the no-hang clause of C15 on one input family: a chain of
// memoized 2-tuples t[i+1] = (t[i], t[i]) used as a dict key. The input grows by 4 bytes per level;
// decoding time must not grow geometrically with it. Measured as the ratio of the decoding times at
// depth d+4 and d (minimum of several runs): a decoder that is polynomial in the input size stays far
// below the threshold, one that re-walks the unfolded tree multiplies its time by 16 per 4 levels.

import (
	"bytes"
	"encoding/json"
	"fmt"
	"os"
	"testing"
	"time"
)

func verifSharedKeyInput(depth int) []byte {
	var b bytes.Buffer
	b.WriteByte(opEMPTY_DICT)
	b.WriteByte(opMEMOIZE)
	b.WriteByte(opMARK)
	b.Write([]byte{opBININT1, 1, opTUPLE1, opMEMOIZE}) // memo 1
	for i := 0; i < depth; i++ {
		b.Write([]byte{opBINGET, byte(i + 1), opBINGET, byte(i + 1), opTUPLE2, opMEMOIZE})
	}
	b.Write([]byte{opNONE, opSETITEMS, opSTOP})
	return b.Bytes()
}

func verifDecodeTime(t *testing.T, in []byte) time.Duration {
	best := time.Duration(1 << 62)
	for k := 0; k < 3; k++ {
		t0 := time.Now()
		if _, err := NewDecoder(bytes.NewReader(in), nil).Decode(); err != nil {
			t.Fatalf("decode: %v", err)
		}
		if d := time.Since(t0); d < best {
			best = d
		}
	}
	return best
}

func TestVerifBoundedDecodeTime(t *testing.T) {
	failures, total := 0, 0
	var samples []string
	for _, d := range []int{12, 14, 16, 18} {
		lo, hi := verifSharedKeyInput(d), verifSharedKeyInput(d+4)
		tl, th := verifDecodeTime(t, lo), verifDecodeTime(t, hi)
		total++
		ratio := float64(th) / float64(tl+time.Microsecond)
		samples = append(samples, fmt.Sprintf("depth %d (%d bytes): %v; depth %d (%d bytes): %v; ratio %.1f", d, len(lo), tl, d+4, len(hi), th, ratio))
		if ratio > 6 && th > 2*time.Millisecond {
			failures++
			t.Errorf("decoding time grows geometrically with the input: %d bytes take %v, %d bytes take %v (x%.1f for 24 more bytes); a few hundred bytes never finish", len(lo), tl, len(hi), th, ratio)
		}
	}
	if f := os.Getenv("VERIF_BOUNDED_STATS"); f != "" {
		data, _ := json.Marshal(map[string]interface{}{"evaluations": total, "distinct_nontrivial": total, "failures": failures, "samples": samples,
			"rule": "chains of memoized 2-tuples of depth 12..22 used as a dict key; ratio of decoding times at depth d+4 and d, threshold 6 (geometric growth gives about 16)", "exhaustive": false})
		os.WriteFile(f, data, 0o644)
	}
}
